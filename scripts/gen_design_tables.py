#!/usr/bin/env python3
"""Regenerates the two generated tables of DESIGN.md: the fix table (section 9.1, from known_findings.json)
and the seeded-mutation result table (section 10.3, from seeded/*/meta.json)."""
import json, re, glob
p = '/verif/DESIGN.md'
s = open(p).read()

def between(s, start_marker, end_marker, new):
    a = s.index(start_marker)
    b = s.index(end_marker, a)
    return s[:a] + start_marker + "\n" + new + "\n" + s[b:]

# ---- 9.1
k = json.load(open('/verif/known_findings.json'))
rows = []
for f in k:
    if f['status'] != 'fixed':
        continue
    what = re.sub(r'^fixed: property=\S+(?: \((?:and|also) [^)]*\))? ?(?:[0-9a-f]{8})? ?(?:\(was recorded as a known finding first\) )?', '', f['what']).strip().replace('|', '/')
    if len(what) > 330:
        what = what[:327] + '…'
    rows.append(f"| {f['property']} | `{f['commit']}` | `{f['signature'][:60]}` | {what} |")
hdr = "| property | commit | signature (prefix) | what failed |\n|---|---|---|---|"
if '<!-- FIXTABLE -->' not in s:
    a = s.index("| property | commit | signature (prefix) | what failed |")
    b = s.index("\n\nC20's third row stands for")
    s = s[:a] + "<!-- FIXTABLE -->\n" + hdr + "\n" + "\n".join(rows) + "\n<!-- /FIXTABLE -->" + s[b:]
else:
    s = between(s, '<!-- FIXTABLE -->', '<!-- /FIXTABLE -->', hdr + "\n" + "\n".join(rows))

# ---- 10.3
rows = []
for mp in sorted(glob.glob('/verif/seeded/*/meta.json')):
    m = json.load(open(mp)); c = m.get('confirmed', {})
    ok = c.get('patch_applies') and c.get('compiles') and c.get('suite_65_pass') and c.get('demo_on_unchanged_tree') == 'pass' and c.get('demo_on_mutant') == 'fail'
    ch = m.get('checks', {})
    caught = [f"{kk} (`{v['signatures'][0][:58]}`)" if v['signatures'] else kk for kk, v in ch.items() if v['caught']]
    missed = [kk for kk, v in ch.items() if not v['caught']]
    files = ", ".join(x.split('/')[-1] for x in m.get('files_changed', []))
    what = m.get('what', '').replace('|', '/').replace('\n', ' ')
    if len(what) > 150:
        what = what[:147] + '…'
    res = ("**caught by** " + "; ".join(caught)) if caught else "**not caught**"
    if m.get('obsolete'):
        res = "**obsolete** (unreachable since fix 04b210a1, see 10.5)"
        missed = []
    if missed:
        res += " — not by " + ", ".join(missed)
    rows.append(f"| {m['name']} | {files} | {what} | {'yes' if ok else 'NO'} | {res} |")
hdr2 = "| mutation | file | what it breaks | confirmed | result |\n|---|---|---|---|---|"
if '<!-- SEEDTABLE -->' not in s:
    a = s.index("| mutation | file | what it breaks | confirmed | result |")
    b = s.index("\n\nNot caught: **C15-a**")
    s = s[:a] + "<!-- SEEDTABLE -->\n" + hdr2 + "\n" + "\n".join(rows) + "\n<!-- /SEEDTABLE -->" + s[b:]
else:
    s = between(s, '<!-- SEEDTABLE -->', '<!-- /SEEDTABLE -->', hdr2 + "\n" + "\n".join(rows))
open(p, 'w').write(s)
print("fix rows", len([f for f in k if f['status'] == 'fixed']), "seeded rows", len(rows))
