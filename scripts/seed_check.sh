#!/bin/bash
# seed_check.sh <mutation-dir> <CHECK-ID>... : applies patch.diff to /repo, runs the named checks (quick tier),
# undoes the patch straight afterwards. Output of each check goes to <mutation-dir>/run.<ID>.log .
# Never run two of these at the same time (they share /repo).
set -u
D=$(realpath "$1"); shift
cd /verif
if [ -n "$(git -C /repo status --porcelain)" ]; then echo "/repo is not clean"; exit 2; fi
git -C /repo apply "$D/patch.diff" || { echo "patch does not apply"; exit 2; }
trap 'git -C /repo checkout -- . ; git -C /repo clean -fdq' EXIT
export VERIF_EVIDENCE_DIR=/tmp/verif.seed-evidence   # the committed evidence files describe the unchanged tree only
for id in "$@"; do
  ./check "$id" ${SEED_TIER:-quick} > "$D/run.$id.log" 2>&1
  rc=$?
  echo "$id exit=$rc $(grep -c '^VIOLATION' "$D/run.$id.log") violation line(s): $(grep -m1 -B1 '^VIOLATION' "$D/run.$id.log" | head -1 | cut -c1-200)"
done
