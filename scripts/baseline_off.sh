#!/bin/bash
# Runs the repository's pinned suite with the verif guard OFF and compares the passing set
# with /root/.vp/BASELINE.json (65 stable tests). Exit 0 iff every baseline test passes.
export GOFLAGS=-mod=mod GOPROXY=off GOSUMDB=off GOTOOLCHAIN=local
OUT=$(mktemp /tmp/verif.baseline.XXXXXX.json)
# the repository's tests leave their temporary ledgers behind: give them a directory of their own
TMPD=$(mktemp -d /tmp/verif.baseline.tmp.XXXXXX)
trap 'rm -rf "$OUT" "$TMPD"' EXIT
(cd /repo && TMPDIR="$TMPD" go test -mod=mod -json -vet=off -count=1 -timeout 25m ./... > "$OUT" 2>/dev/null)
python3 - "$OUT" <<'PY'
import json,sys
passed=set()
for l in open(sys.argv[1]):
    try: e=json.loads(l)
    except Exception: continue
    if e.get('Action')=='pass' and e.get('Test') and '/' not in e['Test']:
        passed.add(e['Package']+'::'+e['Test'])
base=json.load(open('/root/.vp/BASELINE.json'))['stable_pass']
missing=[t for t in base if t not in passed]
print(f"baseline tests: {len(base)} passed now: {len([t for t in base if t in passed])} missing: {len(missing)}")
for m in missing: print("MISSING", m)
sys.exit(1 if missing else 0)
PY
