#!/usr/bin/env python3
"""seed_record.py <mutation-dir> [CHECK-ID ...]
Runs the named checks (default: the mutation's own property) against the mutation (applied to /repo and
undone by seed_check.sh) and records the outcome in meta.json under "checks"."""
import json, subprocess, sys, os, re
d = os.path.realpath(sys.argv[1])
meta = json.load(open(os.path.join(d, 'meta.json')))
ids = sys.argv[2:] or [meta['property']]
out = subprocess.run(['/verif/scripts/seed_check.sh', d] + ids, capture_output=True, text=True).stdout
print(out.strip())
checks = meta.setdefault('checks', {})
for line in out.splitlines():
    m = re.match(r'^(C\d\d) exit=(\d+) (\d+) violation line', line)
    if not m:
        continue
    cid, rc = m.group(1), int(m.group(2))
    sigs = []
    log = os.path.join(d, 'run.%s.log' % cid)
    if os.path.exists(log):
        prev = ''
        for l in open(log):
            if l.startswith('VIOLATION') and prev.startswith('  '):
                sigs.append(prev.strip().split(': ')[0])
            prev = l
    checks[cid] = {'tier': os.environ.get('SEED_TIER', 'quick'), 'seed': int(os.environ.get('VERIF_SEED', '1')), 'exit': rc,
                   'caught': rc == 1, 'signatures': sorted(set(sigs))[:6],
                   'verif_commit': subprocess.run(['git', '-C', '/verif', 'rev-parse', '--short', 'HEAD'], capture_output=True, text=True).stdout.strip()}
json.dump(meta, open(os.path.join(d, 'meta.json'), 'w'), indent=1)
