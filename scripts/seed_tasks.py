#!/usr/bin/env python3
"""seed_tasks.py  - prepares one scratch worktree of /repo per property under /tmp/mut/Cxx and writes the task
description (TASK.md) a fresh sub-agent is given: the property's text, the sandbox's shell set-up and one-sentence
summaries of the mutations earlier sub-agents produced for that property (so that a new round goes elsewhere).
Nothing of the checks is mentioned. Worktrees are removed again with:
  for i in $(seq -w 1 20); do git -C /repo worktree remove --force /tmp/mut/C$i; done"""
import json, glob, os, subprocess
os.makedirs('/tmp/mut', exist_ok=True)
prev = {}
for mp in sorted(glob.glob('/verif/seeded/*/meta.json')):
    m = json.load(open(mp))
    prev.setdefault(m['property'], []).append((", ".join(m.get('files_changed', [])), m.get('what', '')[:260]))
common = open('/verif/scripts/seed_task_template.txt').read()
for l in open('/verif/properties.jsonl'):
    r = json.loads(l)
    pid = r['id']
    wt = f'/tmp/mut/{pid}'
    if not os.path.isdir(wt):
        subprocess.run(['git', '-C', '/repo', 'worktree', 'add', '-q', '--detach', wt, 'HEAD'], check=True)
    pv = "\n".join(f"  - {f}: {w}" for f, w in prev.get(pid, [])) or "  (nothing)"
    p = common.format(wt=wt, pid=pid, title=r['title'], statement=r['statement'], quant=r['quantifier']['text'],
                      files=', '.join(r['anchors']['files']), prev=pv)
    open(f'{wt}/TASK.md', 'w').write(p)
print('ok')
