#!/usr/bin/env python3
"""Generates /verif/MANIFEST.json from the table below (kept in one place so it stays valid)."""
import json, subprocess

CHECKS = {}
NA = {}

# what was added after the seeded-mutation campaign (DESIGN.md §10.2), appended to the level text
EXTRA = {
 "C01": " Added later: a replica that stops and reopens after every block; black-list-only service updates aimed at pairs that carry traffic; Ethereum-format transactions (transfers, deployments, calls, reverts, rejections before/after the gas purchase).",
 "C02": " Added later: every executed block is also fed to the real InterchainRouter (live subscription and replay query): each chain's wrapper must carry exactly the block's delivery entries, roots and height; a service addressing itself and two services of one chain are among the pairs. An unordered (batch) source service is among the pairs; a case with an unordered destination runs as an observation only (outside the statement).",
 "C03": " Added later: inter-hub IBTPs whose proof bytes do not hash to the committed value although the signatures are valid. Master-rule updates voted down (candidate: a registered rule or the built-in one), followed by re-activation of the chain and proofs only the rejected candidate would accept.",
 "C04": " Added later: every sixth case runs transactions between two BitXHubs seen from the source hub (requests to a remote hub, receipts signed by its validators, begin-failure / rollback notices) against a reference model.",
 "C05": " Added later: the router's delivery sets (live and replay path) must carry the block's multi-tx notifications for every chain. Two groups begun in one block with one timeout (shared per-height list); a report for one group in the expiry block of another.",
 "C06": " Added later: every third case runs one-to-many groups: a group's begun children are listed as timed out for the source chain exactly once, in block firstH+T, only if the group neither finished nor failed before; the router's wrappers must carry the block's timeout notifications. Groups sharing a timeout height; the router's timeout part decides C06 in the group cases too.",
 "C07": " Added later: Ethereum-format transactions in the mixed blocks; a fee oracle (a failed transaction costs its sender exactly gas used x price, or its whole balance). An XVM deployment whose sender cannot pay the fee, to an address that already exists as an account, optionally called in the same block.",
 "C08": " Added later: envelope fields absent on the wire (From, To, payload, signature), odd Ethereum-format transactions.",
 "C09": " Added later: every fourth case drives the ledger's own interface (PersistBlockData, Rollback) with synthetic blocks: delivery entries marked invalid, several chains per block, empty blocks, rollbacks in a row.",
 "C10": " Added later: variant balance-by-delta (the same final balance reached by credits and debits). The known finding 'reverted write on a new account' was repaired later (e5a2e9d8); two remain. Every fifth case runs real blocks (requests, receipts, timeouts, restarts) through the executor with a root monitor: nothing may be left dirty in the ledger after the commit (a write after the root), the header root is the hash of the committed journal, and the accounts the journal lists are exactly those whose keys changed in the state store.",
 "C11": " Added later: height 0 (the commit of the genesis block itself) and a crash block that creates accounts with code and storage (EVM constructor storing a word, WASM deployment). The chain meta (height, head hash, interchain transaction count) after recovery and after continuing is compared with the never-crashed replica and the chain audit of C09 runs on the recovered store; one crash height lies in the generated history and its block carries an accepted request.",
 "C12": " Added later: the running ledger itself is read right before every rollback and at the end of each history (its caches must hold the restored-and-continued state). What a cache-less ledger reads (found-flag included) right after every commit is recorded; after a rollback to that height every read must repeat it.",
 "C13": " Added later: after every commit the running ledger (cache) and a cache-less ledger over the same store must answer identically, found-flag included; slot locality in the generator.",
 "C14": " Added later: a transfer that covers the amount but not the fee, sent after an earlier transaction of the block touched the receiver. Amounts that are not decimal numbers but start with digits.",
 "C15": " Added later: an admin frozen with a pending activation (or a pending logout requested while frozen) is unavailable: votes by such admins are judged; freeze/activate/logout of weight-1 admins and votes aimed at proposals whose electorate lists them. Every fifth case opens with a script in which the electorate changes while a proposal is paused.",
 "C16": " Added later: master-rule changes; appchain-level gating (an approved freeze or logout of an appchain makes all its services unusable whatever the service record says); black-list-only updates; a scripted opening (freeze, rule change on the frozen chain, approval); probes aimed at chains and pairs whose status just changed. Two more scripted openings: a service registration approved while its appchain is frozen; an activation cascade over a logged-out service.",
 "C17": " Added later: three more callers who are 'everyone else': the admin of an appchain whose id differs from the victim's only in letter case, a governance admin frozen by a vote, and one who then asked for his own logout. The frozen admins are in the electorate of the fixture's open proposal; aimed calls (UpdateService with the registered name and details, Vote by a frozen elector).",
 "C18": " Added later: blocks produced elsewhere (commit of transactions the pool never held while the ledger's nonce advances, clients re-sending committed transactions, MarkBatched for blocks minted elsewhere). Timed-block pools (a quarter of the cases); foreign blocks announced by MarkBatched before their commit.",
 "C19": " Added later: the same foreign-block operations as C18; every 25th case drives the pool's front buffer (TxCache) with consumers of different pace: every transaction comes out exactly once, in order, and a set does not change after it was handed over. In one of forty cases a parked transaction is superseded after it has waited longer than a tolerance and the age rule runs at once: the newcomer must survive (judged only when the measured elapsed time stayed below the tolerance).",
}

def check(pid, cat, text, note, technique, design_ref):
    text = text + EXTRA.get(pid, "")
    CHECKS[pid] = dict(property_id=pid, quick_cmd=f"./check {pid} quick", thorough_cmd=f"./check {pid} thorough",
        evidence_file=f"/verif/evidence/{pid}.json", replay_cmd_template=f"./check {pid} --replay {{path}}",
        engine="vcheck", level_claimed=dict(category=cat, text=text, design_ref=design_ref), level_note=note, technique=technique)

check("C18", "exploration",
  "Thousands of PRNG-generated pool histories (arrivals out of order/duplicate/conflicting/stale, batch generation, commits in order/out of order/partial/unknown/of txs batched elsewhere, eviction, restart) run against the real mempool under the race detector; every returned batch is checked online against a sequential nonce model written from the property text. Held on the histories run, nothing more.",
  "Trusts: the model in model/pool.go (pure Go, no import of the target); the pool is driven from one goroutine as the order event loop does; txs are unsigned test objects.",
  "runtime monitoring: online reference-model checker over generated API histories + Go race detector", "DESIGN.md §5 C18")
check("C19", "exploration",
  "Same histories as C18; after every API call the monitor checks that every admitted tx is committed, retrievable by hash, superseded or legitimately evicted, that pending work and the per-account pending nonce are reported as the model says, and at the end that ceil(ready/batch)+1 GenerateBlock+commit rounds hand out every ready tx (bounded restatement of the liveness clause).",
  "Trusts model/pool.go; eviction is exercised with tolerances (-1h / 1000h) that make the age comparison independent of elapsed time; 'eventually batched' is decided only as bounded progress after arrivals stop.",
  "runtime monitoring: online reference-model checker after every step + bounded-progress drain + Go race detector", "DESIGN.md §5 C19")

check("C13", "exploration",
  "Model-based monitoring of the real SimpleLedger: thousands of generated histories of set/add/delete/get/prefix-query/snapshot/revert/finalise/flush+commit/reopen over 3 accounts x 7 prefix-related keys with account-cache capacities of 1-3 entries; after every call getters and prefix queries are compared with a map-based reference model; failing histories are delta-debugged to a minimal witness.",
  "Trusts model/kv.go; AddState values are 'unknown' after a revert to an older snapshot (only journaled values are promised); present-and-empty vs absent is not judged; only the 'simple' ledger (the complex/trie ledger is out of reach).",
  "runtime monitoring: online reference-model checker (map-based) after every ledger call + Go race detector", "DESIGN.md §5 C13")
check("C12", "exploration",
  "State-ledger part: generated 15-30 block histories with RollbackState to every distance inside the retained window, below it, above the head, repeated and after reopen; after each rollback a separate read-only ledger over the same store (the node's view-ledger boundary) must read exactly the model state recorded when the target height was committed, refused rollbacks must leave the store byte-identical, and re-executing the recorded calls of block target+1 must reproduce its recorded root.",
  "Trusts model/kv.go. The executor-level clause (re-executing the same blocks reproduces the same block hashes, rollbackBlocks path) is exercised by the replica workload shared with C09. Window size is the hard-coded 10.",
  "runtime monitoring: recorded per-height reference states compared after rollback + root re-execution oracle", "DESIGN.md §5 C12")
check("C10", "exploration",
  "State root: one write set realised on 6 forks by different histories (order, tx split, redundant writes, reads, reverted snapshots, restore-to-original, warm/cold/tiny cache) must give one root; every single-field perturbation must change it. Genuine deviations are recorded as known findings (account touched-but-unchanged hashed; delete of the empty-named key contributes no bytes).",
  "Trusts sha256; un-length-prefixed concatenation ambiguity needing two coordinated changes is outside 'single-field'. Tx/receipt roots: decided by the independent Merkle recomputation of the C09 audit.",
  "runtime monitoring: differential execution of one write set over forked ledgers + perturbation sensitivity oracle", "DESIGN.md §5 C10")

IX_NOTE = "Trusts model/interchain.go (sequential spec written from the statement), the always-true rule for proofs (C03 covers proofs), the fixture built by real governance transactions. Observation at the public boundary: receipts, BVM queries through the view executor, per-block InterchainMeta."
check("C02", "exploration",
  "Generated IBTP histories over 3-6 ordered service pairs (valid/duplicate/future/zero/huge indices, receipts in and out of order, unknown requests, begin-failed destinations, audit on/off, restarts) executed block by block on the real executor+ledger; every IBTP is decided in transaction order by a sequential model and the receipt status, the four counters of every pair after every block, the delivery metadata and the index->tx mapping are compared; blocks holding only rejected IBTPs must leave the interchain and transaction-manager contracts' keys untouched.",
  IX_NOTE, "runtime monitoring: online reference-model checker over executed block histories", "DESIGN.md §5 C02")
check("C04", "exploration",
  "Same histories; GetStatus of every transaction id ever accepted is queried after every block and must equal the model's status; every observed change must be a path of protocol edges not longer than the accepted events for that id in the block; final statuses must never change; receipts that would need a non-edge must be rejected.",
  IX_NOTE + " Inter-BitXHub notice edges (BEGIN->FAILURE/ROLLBACK by destination-hub notice) are driven by the C03 workload.", "runtime monitoring: per-block status trace checked against the protocol transition table", "DESIGN.md §5 C04")
check("C06", "exploration",
  "Same histories with timeouts {0,1,2,3,5,7,2^31,2^62,2^63-1,-1}; TimeoutCounter of every block and chain key must list exactly the requests whose due height H+T is this block and that have no accepted receipt at a height <= due; BEGIN_ROLLBACK exactly from the due block; only rollback/failure receipts afterwards; restarts between H and H+T.",
  IX_NOTE + " Horizon 25-40 blocks per case. Group timeouts are C05's.", "runtime monitoring: per-block timeout-list oracle from a sequential model", "DESIGN.md §5 C06")
check("C08", "exploration",
  "Hostile blocks (1-20 txs) against the real executor in child processes: the whole BVM dispatch surface enumerated by reflection (~570 methods) with well-typed / type-confused / wrong-arity vectors, malformed IBTPs, byte-mutated payloads, structural oddities, bad signatures, proofs rejected by WASM rule doubles (false / trap / fuel burn), serial and parallel proof verification. Oracle: process alive, ExecutedEvent within the watchdog, one receipt per tx in order, height+1. A dead worker is a violation attributed to the block logged before it died.",
  "Inputs beyond the generators (EVM bytecode, >5 KB strings) are not driven; watchdog 120 s per block (parked executor = wedged, else inconclusive).", "runtime monitoring: crash/wedge/receipt-count oracle over structure-aware and mutational fuzz blocks in child processes", "DESIGN.md §5 C08")

check("C01", "exploration",
  "One history from genesis (fixture + 24-33 mixed blocks of every transaction kind incl. 3-5-child groups, governance, XVM, hostile txs) is executed by the generating replica and replayed in separate OS processes: plain, perturbed schedule (sleep hooks in signature/proof goroutines and persist writers, GOMAXPROCS=2), stop/reopen in-process and as new processes right after genesis and at PRNG heights, and K repeats (fresh map orders). Block hash, all roots, every marshalled receipt, the canonical InterchainMeta (list order preserved) at every height and the final state store must be identical; on divergence the differing state keys are extracted by re-running with state dumps. Race detector on: a race whose two accesses are in executor/ledger/vm/proof code is a violation.",
  "All replicas run one binary on one machine; map orders / schedules the runtime does not produce in the sample are out of reach; undo-journal records (account order inside a block journal) are excluded from the dump comparison because the property does not name them.",
  "runtime monitoring: differential execution of one recorded history across processes, schedules, restarts and repeats + Go race detector", "DESIGN.md §5 C01")
check("C07", "exploration",
  "Differential oracle on the real executor: every generated block that produced a FAILED receipt is re-run on a copy of its pre-state with each failed tx replaced by a null failure of the same sender and nonce; the resulting state stores must agree except for the balances of those senders and the admins; no failed tx may be listed in a delivery set; read-only execution of state-writing calls must leave state store, chain store and chain meta byte-identical. Failure causes driven: contract errors before/after writes, contract panics, rejected proofs, bad signatures, fee failure after the contract wrote (pauper), fuel exhaustion, IBTP failures.",
  "Failure points the generators do not reach inside a contract are out of reach; blocks whose surviving txs depend on a failed sender's balance are counted as undecided; EVM out-of-gas not driven.",
  "runtime monitoring: differential (null-failure substitution) state comparison per block + view idempotence oracle", "DESIGN.md §5 C07")
check("C09", "exploration",
  "Chains built from genesis with generated blocks (empty, 60-200 look-alike txs, interchain-heavy) are audited height by height with independently recomputed Merkle roots and every index; then rolled back (Ledger.Rollback or the executor's own path), audited for stale lookups, re-executed or continued differently, and audited again, three rounds per case.",
  "pb.BlockHeader.Hash/Receipt.Hash define the covered fields (trusted library); cbergoon/merkletree is the trusted Merkle implementation (same library as the target, but fed by the harness from stored data).",
  "runtime monitoring: structural audit of the stored chain at quiescent points + stale-lookup oracle after rollback", "DESIGN.md §5 C09")
check("C14", "exploration",
  "Global conservation monitor (sum of all account records <= before + grants, no negative balance) after every block of mixed histories with 1-7 admins and gas prices {0,1,7,50000,1000003}, plus exact per-account deltas for single-transfer blocks over hostile amounts, senders and receivers.",
  "EVM value transfers are not BitXHub-native and not driven; admin grants are recognised from role status queries.",
  "runtime monitoring: conservation invariant over state-store balances at block boundaries + per-transfer delta oracle", "DESIGN.md §5 C14")

check("C03", "exploration",
  "IBTPs whose proof validity for the origin chain is known by construction (sha256 match; rule doubles true / first-byte / trap / fuel-burn / none / unregistered; inter-BitXHub multi-signatures with valid, duplicate, unregistered, garbage and wrong-status signers), under rule changes through governance and chain logouts, serial and parallel verification, blocks of 1-12 IBTPs; plus external accounts trying the plain-invocation entry points with a victim's next IBTP. Oracle: invalid => FAILED, not delivered, nothing but sender nonce/fee and admin balances changes; counters and statuses after every block equal what the verified-and-accepted IBTPs produced; valid and in order => accepted; a dead worker is a violation.",
  "Rules are harness-authored WASM doubles (data, not code under test); cryptographic forgeries and other rules are out of reach; no traffic of a chain while its master-rule update is pending.",
  "runtime monitoring: by-construction proof-validity oracle + state-diff and counter monitors over executed blocks", "DESIGN.md §5 C03")
check("C17", "exploration",
  "The BVM dispatch surface is enumerated by reflection and classified by a committed table (internal / reserved); thousands of single-transaction blocks invoke classified methods directly as outsider / admin of another appchain / governance admin (internal only) with well-typed arguments naming live victims (open transactions, an open proposal, registered chains/services), audit on and off. Oracle: receipt FAILED and state-store diff within {caller, admins}; victim's interchain counters and transaction statuses unchanged after every call.",
  "The table model/acl.go is the specification of which entry points are internal/reserved (transcribed from the statement); unclassified methods are only checked for 'victim unchanged'.",
  "runtime monitoring: reflection-enumerated access-control sweep with key-level state-diff oracle", "DESIGN.md §5 C17")

check("C05", "exploration",
  "1-3 concurrent one-to-many groups (1-5 children over 1-3 destination chains, optional begin-failed child, optional over-declared size, group timeouts) are driven with randomly ordered child requests and success / failure / rollback / duplicate / late / never-begun reports; after every block the stored group record and the block's MultiTxCounter / TimeoutCounter / Counter are checked against the all-or-nothing statement (SUCCESS only with all declared children begun and succeeded; after the first failure or expiry never SUCCESS, every begun child failed/rolled back; source told about every earlier child, each destination holding a succeeded child told about it, in the failing block).",
  "Accepted events are taken from receipts (acceptance itself is C02/C04's job); per-child states are read from the transaction manager's stored record because GetStatus(child) answers with the global state; n <= 5.",
  "runtime monitoring: per-block group-state and notification-coverage oracle over generated child-event orders", "DESIGN.md §5 C05")

check("C15", "exploration",
  "Worlds with 4-7 weight-2 admins plus candidate weight-1 admins and one of six admitted strategy expressions; 60 governance steps per case (submissions of service/appchain/role proposals incl. several on one object, approve / reject / garbage / empty votes by admins, candidates, outsiders, chain admins, on open and finished proposals, withdrawals). After every step all proposals are read back: eligibility decides each Vote receipt and a refused vote leaves the proposal byte-identical; tallies == ballots from the electorate frozen at creation; approval by tally only with the recorded expression true; rejection by tally only when approval is unreachable under both readings; special proposals only with a weight-2 ballot; concluded proposals byte-identical ever after; governed objects change only in blocks with a governance event on them.",
  "govaluate is the trusted expression evaluator; admins with a pending lifecycle operation are not judged (the statement does not say whether they are available); a refused legitimate vote is an observation, not a violation (only-if statement).",
  "runtime monitoring: per-step proposal read-back checked by an eligibility / tally / finality oracle", "DESIGN.md §5 C15")

check("C16", "exploration",
  "Worlds built from genesis are driven through 70 single-transaction blocks mixing governance operations (register / update / freeze / activate / logout on appchains, services, roles, nodes, with approving and rejecting votes) and interchain probes between services in every governance status, with node restarts; the gate's answer is predicted from the statuses queried right before the probe (three-valued: transitional statuses are not judged) and every observed status change is checked against the declared machines (paths of <= 2 declared edges, forbidden absorbing, caused by the block's transaction on the object or its owning chain).",
  "Declared machines = the setFSM tables of bitxhub-core appchain/service/node/rule managers and contracts/role.go, transcribed in model/lifecycle.go; listing a begin-failed request for its destination chain is not judged (the statement does not forbid it).",
  "runtime monitoring: three-valued gating oracle + declared-FSM trace checker over per-block status queries", "DESIGN.md §5 C16, appendix B")

check("C11", "fault_enumeration",
  "For commit heights {1 (genesis), 2, 5, 11, 12 (journal pruning), 23} of a recorded mixed history every whole-component crash image (state store PRE/POST/MID x chain index PRE/POST x each of the five blockfile tables PRE/POST: 128-192 images per height) is composed from real data directories and probed in a fresh process, plus 14 real SIGKILLs at the hook points of the persist path with the other writers delayed. Oracle: opens, height in {h,h+1}, head readable and equal to the reference, state version == head, state store == the reference's, nothing below the head lost, continuing with the reference blocks reproduces its hashes. One family of images (chain index committed, blockfile append lost) is recorded as known finding; two other families were repaired.",
  "Only process death is modelled (no loss of un-fsynced data after later data survived); LevelDB-internal torn records are trusted to LevelDB; intra-table torn writes are left to the blockfile's own repair.",
  "runtime monitoring + fault injection: exhaustive composition of per-component crash images and SIGKILL at hook points, each recovered by the real ledger in a child process and compared with a never-crashed reference", "DESIGN.md §5 C11")

check("C20", "fault_enumeration",
  "Every replica is a separate OS process running the real etcd-raft (3 or 4 replicas) or solo order node behind a parent-process network that loses, duplicates, delays and reorders messages and isolates nodes; replicas are killed with SIGKILL at random moments, at the hook points around mint / recording the applied index and before/after the executor's durable write, and restarted from their data directories; clients re-send committed and uncommitted transactions. A stand-in executor logs every delivered block durably before reporting state. Offline oracle on the logs: heights delivered to each replica are exactly last+1 across all incarnations, every height has identical transactions and timestamp on all replicas, no transaction is in two heights, nothing unsubmitted is delivered, no committed batch above lastExec+1 is ever ignored. SyncCFTBlocks is enumerated completely for 1<=begin<=end<=40 x fetch {1,2,3,5,7}. Six genuine defects were found and repaired (fork after crash behind a snapshot, stuck replica after a crash during snapshot catch-up, four causes of a transaction delivered in two blocks). The stand-in executor's report lags behind the delivery by a scenario-determined amount; half of the partitions hit the busiest replica (the presumed leader) right after a burst. In two of three scenarios the committed blocks, the executed-block reports and the peer messages pass through the node's real feed hub (internal/app start/listenEvent) between the order node and the stand-in executor.",
  "The executor is a stand-in (the executor/ledger pair is C11's subject); messages are never corrupted; schedules are sampled (timing only selects them, no verdict depends on wall-clock); smart-BFT ordering is not linked in this tree's default build and is not covered.",
  "runtime monitoring + fault injection: multi-process cluster under a hostile in-memory network and SIGKILL at hook points, offline checker over durable per-replica delivery logs; exhaustive enumeration of sync ranges", "DESIGN.md §5 C20")

ALL = [f"C{i:02d}" for i in range(1, 21)]
REASON_PENDING = "check not built yet in this round; see DESIGN.md §5 for the planned monitor (no claim is made until the check runs clean on the unchanged tree)"

def main():
    hooks = subprocess.run(["git", "-C", "/repo", "log", "--format=%H %s"], capture_output=True, text=True).stdout.splitlines()
    src = [l.split()[0] for l in hooks if l.split(" ", 1)[1].startswith("verif:")]
    m = dict(version=1,
        setup_cmd="cd /verif && ./scripts/setup.sh",
        hooks=dict(guard="verif (Go build tag)", enable="go build -tags verif (every worker build done by ./check uses it)",
                   baseline_off_cmd="/verif/scripts/baseline_off.sh", source_commits=src, add_only=True),
        engines=[dict(name="vcheck", path="/verif/cmd/vcheck", serves_properties=sorted(CHECKS), kind_free_text="parent driver: builds cmd/vworker from /repo's tree (-race -tags verif), shards seed-determined cases over child processes, aggregates JSONL event logs and race logs, matches known findings, writes evidence")],
        checks=[CHECKS[k] for k in sorted(CHECKS)],
        not_applicable=[dict(property_id=p, reason=NA.get(p, REASON_PENDING)) for p in ALL if p not in CHECKS],
        notes="All checks: exit 0 held / exit 1 VIOLATION / exit 2 INCONCLUSIVE (never on the unchanged tree). VERIF_SEED selects the case list. known_findings.json lists fixed and open findings.")
    json.dump(m, open("/verif/MANIFEST.json", "w"), indent=1)
    print("checks:", sorted(CHECKS))

if __name__ == "__main__":
    main()
