#!/bin/bash
# seed_round.sh <Cxx> <two letters, e.g. ij> : import the two mutations a sub-agent left in /tmp/mut/<Cxx>/MUTATIONS,
# confirm each in a scratch worktree, run the property's own quick check against each (sequentially: they share /repo).
set -u
P=$1; MAP=$2
cd /verif
scripts/seed_import.sh $P $MAP
for v in $(echo $MAP | fold -w1); do
  [ -d seeded/$P-$v ] || continue
  scripts/seed_confirm.sh seeded/$P-$v
  python3 scripts/seed_record.py seeded/$P-$v
done
