#!/bin/bash
# seed_confirm.sh <mutation-dir>   (a directory holding patch.diff)
# Confirms in a scratch worktree of /repo (removed afterwards) that the mutation applies, compiles,
# and that the 65 pinned tests still pass. Prints one JSON line.
set -u
export GOFLAGS=-mod=mod GOPROXY=off GOSUMDB=off GOTOOLCHAIN=local
D=$(realpath "$1")
NAME=$(basename "$D")
WT=/tmp/mutv/$NAME
mkdir -p /tmp/mutv
git -C /repo worktree remove --force "$WT" >/dev/null 2>&1
rm -rf "$WT"
git -C /repo worktree add -q --detach "$WT" HEAD || exit 2
cleanup() { git -C /repo worktree remove --force "$WT" >/dev/null 2>&1; rm -rf "$WT" "/tmp/mutv/$NAME.tmp" "/tmp/mutv/$NAME.json"; }
trap cleanup EXIT
applies=false; builds=false; suite=false; missing=""
if git -C "$WT" apply "$D/patch.diff" 2>/tmp/mutv/$NAME.err; then applies=true; fi
if $applies; then
  if (cd "$WT" && go build ./... >/dev/null 2>&1 && go test -vet=off -count=1 -run '^$' ./... >/dev/null 2>&1); then builds=true; fi
fi
if $builds; then
  mkdir -p /tmp/mutv/$NAME.tmp
  (cd "$WT" && TMPDIR=/tmp/mutv/$NAME.tmp go test -mod=mod -json -vet=off -count=1 -timeout 25m ./... > /tmp/mutv/$NAME.json 2>/dev/null)
  missing=$(python3 - /tmp/mutv/$NAME.json <<'PY'
import json,sys
passed=set()
for l in open(sys.argv[1]):
    try: e=json.loads(l)
    except Exception: continue
    if e.get('Action')=='pass' and e.get('Test') and '/' not in e['Test']:
        passed.add(e['Package']+'::'+e['Test'])
base=json.load(open('/root/.vp/BASELINE.json'))['stable_pass']
print(",".join(t for t in base if t not in passed))
PY
)
  [ -z "$missing" ] && suite=true
fi
echo "{\"name\":\"$NAME\",\"applies\":$applies,\"builds\":$builds,\"suite_65_pass\":$suite,\"missing\":\"$missing\"}"
