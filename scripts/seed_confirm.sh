#!/bin/bash
# seed_confirm.sh <mutation-dir>   (holds patch.diff, demo_test.go, meta.json with demo_dest / demo_cmd)
# Confirms in a scratch worktree of /repo (removed afterwards): the demonstration passes on the unchanged
# tree and fails with the patch; the patched tree compiles; the 65 pinned tests still pass.
# Writes the outcome into meta.json ("confirmed") and prints it.
set -u
export GOFLAGS=-mod=mod GOPROXY=off GOSUMDB=off GOTOOLCHAIN=local
D=$(realpath "$1")
NAME=$(basename "$D")
WT=/tmp/mutv/$NAME
mkdir -p /tmp/mutv
git -C /repo worktree remove --force "$WT" >/dev/null 2>&1
rm -rf "$WT"
git -C /repo worktree add -q --detach "$WT" HEAD || exit 2
cleanup() { git -C /repo worktree remove --force "$WT" >/dev/null 2>&1; rm -rf "$WT" "/tmp/mutv/$NAME.tmp" "/tmp/mutv/$NAME.json" "/tmp/mutv/$NAME.err"; }
trap cleanup EXIT
DEST=$(python3 -c "import json;print(json.load(open('$D/meta.json')).get('demo_dest',''))")
CMD=$(python3 -c "import json;print(json.load(open('$D/meta.json')).get('demo_cmd',''))")
mkdir -p /tmp/mutv/$NAME.tmp
applies=false; builds=false; suite=false; missing=""; demo_clean="skipped"; demo_mut="skipped"
if [ -n "$DEST" ] && [ -n "$CMD" ]; then
  cp "$D/demo_test.go" "$WT/$DEST"
  if (cd "$WT" && TMPDIR=/tmp/mutv/$NAME.tmp timeout 900 bash -c "$CMD" > "$D/demo.clean.log" 2>&1); then demo_clean=pass; else demo_clean=fail; fi
fi
if git -C "$WT" apply "$D/patch.diff" 2>/tmp/mutv/$NAME.err; then applies=true; fi
if $applies && [ -n "$DEST" ] && [ -n "$CMD" ]; then
  if (cd "$WT" && TMPDIR=/tmp/mutv/$NAME.tmp timeout 900 bash -c "$CMD" > "$D/demo.mutant.log" 2>&1); then demo_mut=pass; else demo_mut=fail; fi
  rm -f "$WT/$DEST"
fi
if $applies; then
  if (cd "$WT" && go build ./... >/dev/null 2>&1 && go test -vet=off -count=1 -run '^$' ./internal/... ./pkg/... >/dev/null 2>&1 ; go build -ldflags=-checklinkname=0 ./... >/dev/null 2>&1); then builds=true; fi
fi
if $builds; then
  (cd "$WT" && TMPDIR=/tmp/mutv/$NAME.tmp go test -mod=mod -json -vet=off -count=1 -timeout 25m ./... > /tmp/mutv/$NAME.json 2>/dev/null)
  missing=$(python3 - /tmp/mutv/$NAME.json <<'PY'
import json,sys
passed=set()
for l in open(sys.argv[1]):
    try: e=json.loads(l)
    except Exception: continue
    if e.get('Action')=='pass' and e.get('Test') and '/' not in e['Test']:
        passed.add(e['Package']+'::'+e['Test'])
base=json.load(open('/root/.vp/BASELINE.json'))['stable_pass']
print(",".join(t for t in base if t not in passed))
PY
)
  [ -z "$missing" ] && suite=true
fi
python3 - "$D/meta.json" "$applies" "$builds" "$suite" "$missing" "$demo_clean" "$demo_mut" <<'PY'
import json,sys
p=sys.argv[1]; m=json.load(open(p))
m['confirmed']=dict(patch_applies=sys.argv[2]=='true',compiles=sys.argv[3]=='true',suite_65_pass=sys.argv[4]=='true',suite_missing=sys.argv[5],
  demo_on_unchanged_tree=sys.argv[6],demo_on_mutant=sys.argv[7],base_commit=__import__('subprocess').run(['git','-C','/repo','rev-parse','--short','HEAD'],capture_output=True,text=True).stdout.strip())
json.dump(m,open(p,'w'),indent=1)
print(m['name'] if 'name' in m else p, json.dumps(m['confirmed']))
PY
