#!/bin/bash
# seed_import.sh <Cxx> [ab|cd] : copies /tmp/mut/<Cxx>/MUTATIONS/{A,B} into /verif/seeded/<Cxx>-{a,b}/ and records
# where the demonstration goes and how it is run (parsed from the README the sub-agent wrote).
set -u
P=$1
MAP=${2:-ab}   # second round: "cd" (A -> c, B -> d)
for V in A B; do
  S=/tmp/mut/$P/MUTATIONS/$V
  [ -f "$S/patch.diff" ] || continue
  v=$(echo $V | tr AB "$MAP")
  T=/verif/seeded/$P-$v
  mkdir -p "$T"
  cp "$S/patch.diff" "$T/patch.diff"
  [ -f "$S/demo_test.go" ] && cp "$S/demo_test.go" "$T/demo_test.go"
  [ -f "$S/README.md" ] && cp "$S/README.md" "$T/README.md"
  python3 - "$S" "$T" "$P" "$V" <<'PY'
import json,sys,re,os
S,T,P,V=sys.argv[1:5]
try: m=json.load(open(S+'/meta.json'))
except Exception as e: m={'property':P,'what':'(meta.json unreadable: %s)'%e}
dest=cmd=''
if os.path.exists(S+'/README.md'):
    for l in open(S+'/README.md'):
        l=l.strip().lstrip('$ ').strip('`')
        mm=re.search(r'cp\s+\S*MUTATIONS/%s/demo_test\.go\s+(\S+)'%V,l)
        if mm and not dest: dest=mm.group(1)
        if l.startswith('go test') and not cmd: cmd=l
if dest.startswith('/tmp/mut/%s/'%P): dest=dest[len('/tmp/mut/%s/'%P):]
cmd=cmd.replace(' -v ',' ')
m['name']=os.path.basename(T); m['demo_dest']=dest; m['demo_cmd']=cmd; m['origin']='fresh sub-agent given only the property text and a scratch worktree'
json.dump(m,open(T+'/meta.json','w'),indent=1)
print(m['name'],'| dest:',dest,'| cmd:',cmd)
PY
done
