#!/bin/bash
# Builds the framework from files on disk only (offline) and warms the Go build cache for both worker variants.
set -e
cd /verif
export GOFLAGS=-mod=mod GOPROXY=off GOSUMDB=off GOTOOLCHAIN=local
mkdir -p bin evidence
go build -o bin/vcheck ./cmd/vcheck
go build -tags verif -ldflags=-checklinkname=0 -o bin/vworker-plain ./cmd/vworker 2>&1 | grep -v "GNU-stack\|NOTE: This behaviour\|^# github.com/meshplus/bitxhub/verif" || true
go build -race -tags verif -ldflags=-checklinkname=0 -o bin/vworker ./cmd/vworker 2>&1 | grep -v "GNU-stack\|NOTE: This behaviour\|^# github.com/meshplus/bitxhub/verif" || true
test -x bin/vcheck && test -x bin/vworker && test -x bin/vworker-plain
echo setup ok
