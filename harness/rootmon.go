package harness

import (
	"bytes"
	"encoding/json"
	"fmt"
	"sort"
	"strings"
	"time"

	"github.com/meshplus/bitxhub-kit/types"
	"github.com/meshplus/bitxhub-model/pb"
	"github.com/meshplus/bitxhub/internal/ledger"
	"github.com/meshplus/bitxhub/internal/verifhook"
)

// RootFinding is one disagreement between a committed block's state root and what the block changed.
type RootFinding struct {
	Sig    string
	Detail string
}

// TakeRootFindings returns and clears the root monitor's findings.
func (r *Replica) TakeRootFindings() []RootFinding {
	f := r.RootFindings
	r.RootFindings = nil
	return f
}

// watchDirty registers an observer at the executor's hook point "exec.block.before_clear" (the block is flushed,
// committed and announced; the next statement empties the ledger's working set): whatever is dirty there was
// written after FlushDirtyData. The observer runs in the executor's goroutine.
func (r *Replica) watchDirty() {
	sl, ok := r.L.StateLedger.(*ledger.SimpleLedger)
	if !ok {
		return
	}
	verifhook.Observe("exec.block.before_clear", func() {
		if d := sl.VerifDirtyAccounts(); len(d) > 0 {
			r.dirtyMu.Lock()
			r.dirtyLate = append(r.dirtyLate, d)
			r.dirtyMu.Unlock()
		}
		r.dirtyMu.Lock()
		r.DirtyLooks++
		r.dirtyMu.Unlock()
	})
}

// rootCheck runs right after a block was committed.
//
//  1. nothing may be left dirty in the working set: the state root is computed by FlushDirtyData, a write
//     that comes later is neither covered by the root nor part of the block's commit;
//  2. (Options.RootMon) every key of the state store that differs from before the block belongs to an account
//     that the block's journal - the thing the root is the hash of - lists, every listed account has a
//     differing key, and the journal's hash is the root in the block header.
func (r *Replica) rootCheck(blk *pb.Block) {
	h := blk.BlockHeader.Number
	r.RootBlocks++
	// what the executor's working set still held when the block was done (see watchDirty): taken at the hook
	// point right before the executor clears it
	if r.Opts.RootMon {
		// the executor announces the block before it reaches the hook point: wait for it (bounded; a look that
		// never comes is counted, not judged)
		r.rootExecs++
		for i := 0; i < 2000; i++ {
			r.dirtyMu.Lock()
			n := r.DirtyLooks
			r.dirtyMu.Unlock()
			if n >= r.rootExecs {
				break
			}
			time.Sleep(time.Millisecond)
		}
	}
	r.dirtyMu.Lock()
	late := r.dirtyLate
	r.dirtyLate = nil
	r.dirtyMu.Unlock()
	for _, d := range late {
		r.RootFindings = append(r.RootFindings, RootFinding{"written-after-root", fmt.Sprintf("block %d: when the block was committed the ledger's working set still held changes of %v: they were made after the state root was computed (FlushDirtyData) and are thrown away", h, d)})
	}
	if !r.Opts.RootMon {
		return
	}
	now := r.DumpState()
	prev := r.rootPrev
	r.rootPrev = now
	if prev == nil {
		return
	}
	owner := func(k string) string {
		switch {
		case strings.HasPrefix(k, "journal-"):
			return ""
		case strings.HasPrefix(k, "account-"):
			return strings.ToLower(k[len("account-"):])
		case strings.HasPrefix(k, "code-"):
			return strings.ToLower(k[len("code-"):])
		}
		if len(k) < 20 {
			return "?" + k
		}
		return strings.ToLower(types.NewAddress([]byte(k[:20])).String())
	}
	changed := map[string][]string{}
	for k, v := range now {
		if o, ok := prev[k]; (!ok || !bytes.Equal(o, v)) && owner(k) != "" {
			changed[owner(k)] = append(changed[owner(k)], k)
		}
	}
	for k := range prev {
		if _, ok := now[k]; !ok && owner(k) != "" {
			changed[owner(k)] = append(changed[owner(k)], k)
		}
	}
	raw, ok := now[fmt.Sprintf("journal-%d", h)]
	if !ok {
		r.RootFindings = append(r.RootFindings, RootFinding{"journal-missing", fmt.Sprintf("block %d: no journal entry was committed with the block", h)})
		return
	}
	var j struct {
		Journals []struct {
			Address string
		}
		ChangedHash string
	}
	if err := json.Unmarshal(raw, &j); err != nil {
		r.RootFindings = append(r.RootFindings, RootFinding{"journal-unreadable", fmt.Sprintf("block %d: %v", h, err)})
		return
	}
	r.RootJournals++
	if blk.BlockHeader.StateRoot == nil || !strings.EqualFold(j.ChangedHash, blk.BlockHeader.StateRoot.String()) {
		r.RootFindings = append(r.RootFindings, RootFinding{"header-root-is-not-the-journal-hash", fmt.Sprintf("block %d: header state root %v, hash of the committed journal %s", h, blk.BlockHeader.StateRoot, j.ChangedHash)})
	}
	listed := map[string]bool{}
	for _, e := range j.Journals {
		listed[strings.ToLower(e.Address)] = true
	}
	var miss, idle []string
	for a := range changed {
		if !listed[a] {
			miss = append(miss, fmt.Sprintf("%s %q", a, changed[a]))
		}
	}
	for a := range listed {
		if len(changed[a]) == 0 {
			idle = append(idle, a)
		}
	}
	sort.Strings(miss)
	sort.Strings(idle)
	r.RootAccounts += len(listed)
	if len(miss) > 0 {
		r.RootFindings = append(r.RootFindings, RootFinding{"change-outside-the-root", fmt.Sprintf("block %d: the state store changed for accounts the block's journal (what the root hashes) does not list: %v", h, miss)})
	}
	if len(idle) > 0 {
		r.RootFindings = append(r.RootFindings, RootFinding{"root-covers-unchanged-account", fmt.Sprintf("block %d: the journal lists accounts for which nothing changed in the state store: %v", h, idle)})
	}
}
