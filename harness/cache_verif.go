package harness

import "github.com/meshplus/bitxhub/internal/ledger"

func newSizedCache(s [3]int) (*ledger.AccountCache, error) {
	return ledger.NewAccountCacheSized(s[0], s[1], s[2])
}
