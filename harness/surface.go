package harness

import (
	"math/rand"
	"reflect"
	"sort"

	"github.com/meshplus/bitxhub-model/pb"
)

// Method describes one entry point reachable by name through the BVM dispatcher (which uses
// reflect.MethodByName on the registered contract object, so promoted Stub methods count too).
type Method struct {
	Contract string // address
	CName    string // Go type name of the contract
	Name     string
	In       []reflect.Type
	Variadic bool
	NumOut   int
}

// Surface enumerates the dispatch surface of every registered built-in contract.
func (r *Replica) Surface() []Method {
	var out []Method
	cs := r.Exec.GetBoltContracts()
	var addrs []string
	for a := range cs {
		addrs = append(addrs, a)
	}
	sort.Strings(addrs)
	for _, a := range addrs {
		c := cs[a]
		t := reflect.TypeOf(c)
		for i := 0; i < t.NumMethod(); i++ {
			m := t.Method(i)
			mt := m.Type
			me := Method{Contract: a, CName: t.Elem().Name(), Name: m.Name, Variadic: mt.IsVariadic(), NumOut: mt.NumOut()}
			for j := 1; j < mt.NumIn(); j++ {
				me.In = append(me.In, mt.In(j))
			}
			out = append(out, me)
		}
	}
	return out
}

// ArgFor produces one well-typed pb.Arg for a parameter type; strings are drawn from pool
// (ids of existing objects) or hostile literals. ok=false if the dispatcher cannot produce that type.
func ArgFor(rng *rand.Rand, t reflect.Type, pool []string) (*pb.Arg, bool) {
	switch t.Kind() {
	case reflect.String:
		if len(pool) > 0 && rng.Intn(4) != 0 {
			return pb.String(pool[rng.Intn(len(pool))]), true
		}
		lits := []string{"", "x", "approve", "reject", "1", "0xc7F999b83Af6DF9e67d0a37Ee7e900bF38b3D013", "a:b:c", "a-b-1", "1356:chainA:s1-1356:chainB:s1-1", "::", "---", "\x00\xff", "register", "available"}
		return pb.String(lits[rng.Intn(len(lits))]), true
	case reflect.Uint64:
		v := []uint64{0, 1, 2, 10, 1 << 31, 1<<63 - 1, 1 << 63, ^uint64(0)}
		return pb.Uint64(v[rng.Intn(len(v))]), true
	case reflect.Int64:
		v := []int64{0, 1, -1, 1 << 31, 1<<62 - 1, -(1 << 62)}
		return pb.Int64(v[rng.Intn(len(v))]), true
	case reflect.Int32:
		v := []int32{0, 1, 2, 3, 4, -1, 1 << 30}
		return pb.Int32(v[rng.Intn(len(v))]), true
	case reflect.Float64:
		v := []float64{0, 1, 0.5, -1, 5, 1e300}
		return pb.Float64(v[rng.Intn(len(v))]), true
	case reflect.Bool:
		return pb.Bool(rng.Intn(2) == 0), true
	case reflect.Interface:
		if t.NumMethod() == 0 {
			return ArgFor(rng, reflect.TypeOf(""), pool)
		}
	case reflect.Slice:
		if t.Elem().Kind() == reflect.Uint8 {
			if len(BytesPool) > 0 && rng.Intn(2) == 0 {
				return pb.Bytes(BytesPool[rng.Intn(len(BytesPool))]), true
			}
			switch rng.Intn(4) {
			case 0:
				return pb.Bytes(nil), true
			case 1:
				return pb.Bytes([]byte("{}")), true
			case 2:
				if len(pool) > 0 {
					return pb.Bytes([]byte(pool[rng.Intn(len(pool))])), true
				}
			}
			b := make([]byte, rng.Intn(40))
			rng.Read(b)
			return pb.Bytes(b), true
		}
	}
	return nil, false
}

// WellTyped builds an argument vector of the right arity and types, or ok=false.
func (m Method) WellTyped(rng *rand.Rand, pool []string) ([]*pb.Arg, bool) {
	var args []*pb.Arg
	n := len(m.In)
	if m.Variadic {
		n-- // the dispatcher cannot build the variadic element type; zero variadic args is well-typed
	}
	for i := 0; i < n; i++ {
		a, ok := ArgFor(rng, m.In[i], pool)
		if !ok {
			return nil, false
		}
		args = append(args, a)
	}
	return args, true
}

// BytesPool holds structurally valid byte blobs (marshalled IBTPs with a Content payload, proofs,
// JSON records) offered for []byte parameters, so that entry points which unmarshal their input
// get past the first parse.
var BytesPool [][]byte

func init() {
	content := &pb.Content{Func: "f", Args: [][]byte{[]byte("arg0"), []byte("arg1")}}
	cb, _ := content.Marshal()
	for _, typ := range []pb.IBTP_Type{pb.IBTP_INTERCHAIN, pb.IBTP_RECEIPT_SUCCESS, pb.IBTP_RECEIPT_FAILURE, pb.IBTP_RECEIPT_ROLLBACK} {
		for _, idx := range []uint64{1, 2} {
			for _, to := range []string{FullID(ChainB, "s1"), FullID(BxhID, "0x0000000000000000000000000000000000000019"), "9999:x:y"} {
				ib := &pb.IBTP{From: FullID(ChainA, "s1"), To: to, Index: idx, Type: typ, Payload: cb, TimeoutHeight: 2}
				b, _ := ib.Marshal()
				BytesPool = append(BytesPool, b)
			}
		}
	}
	bp := &pb.BxhProof{TxStatus: pb.TransactionStatus_BEGIN_FAILURE, MultiSign: [][]byte{[]byte("sig")}}
	b, _ := bp.Marshal()
	BytesPool = append(BytesPool, b, cb, []byte(`{"addresses":["0xc7F999b83Af6DF9e67d0a37Ee7e900bF38b3D013"]}`), []byte(`{"status":"available"}`))
}
