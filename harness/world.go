package harness

import (
	"encoding/json"
	"fmt"
	"math/big"
	"os/exec"
	"strings"

	"github.com/meshplus/bitxhub-core/validator"
	"github.com/meshplus/bitxhub-kit/types"
	"github.com/meshplus/bitxhub-model/constant"
	"github.com/meshplus/bitxhub-model/pb"
)

// World is a replica plus the bookkeeping needed to build transactions against it.
type World struct {
	R  *Replica
	N  Nonces
	TS int64
	// EthCtr makes every Ethereum-format transaction of a world unique (it goes into gas price and value): the
	// counter survives a change of generator, nonces do not (a rejected transaction does not consume one)
	EthCtr int64
	// Votes is the number of genesis admins that vote in the fixture's governance flows (a simple majority).
	Votes int
	// Rec, if set, is told every block fed through Exec (for replay on other replicas).
	Rec func(txs []pb.Transaction, ts int64, local []bool)
}

const BxhID = "1356"

var (
	AddrInterchain = constant.InterchainContractAddr.Address()
	AddrStore      = constant.StoreContractAddr.Address()
	AddrRule       = constant.RuleManagerContractAddr.Address()
	AddrRole       = constant.RoleContractAddr.Address()
	AddrAppchain   = constant.AppchainMgrContractAddr.Address()
	AddrTxMgr      = constant.TransactionMgrContractAddr.Address()
	AddrGov        = constant.GovernanceContractAddr.Address()
	AddrNode       = constant.NodeManagerContractAddr.Address()
	AddrBroker     = constant.InterBrokerContractAddr.Address()
	AddrService    = constant.ServiceMgrContractAddr.Address()
	AddrDapp       = constant.DappMgrContractAddr.Address()
	AddrStrategy   = constant.ProposalStrategyMgrContractAddr.Address()
)

func OpenWorld(dir string, o Options) (*World, error) {
	r, err := Open(dir, o)
	if err != nil {
		return nil, err
	}
	return &World{R: r, N: Nonces{}, TS: 1000000 + int64(r.Height())*1000, Votes: len(r.Cfg.Genesis.Admins)/2 + 1}, nil
}

// Nonce returns the next nonce of k, reading the ledger (through the view ledger) the first time.
func (w *World) Nonce(a *types.Address) uint64 {
	if _, ok := w.N[a.String()]; !ok {
		w.N[a.String()] = w.R.ViewL.GetNonce(a)
		w.R.ViewL.Clear()
	}
	return w.N.Next(a)
}

func (w *World) Stamp() int64 { w.TS++; return w.TS }

// Exec executes one block with the given transactions.
func (w *World) Exec(txs ...pb.Transaction) (*BlockResult, error) {
	w.TS += 1000
	txs = WireRoundTrip(txs)
	if w.Rec != nil {
		w.Rec(txs, w.TS, nil)
	}
	return w.R.ExecBlock(txs, w.TS, nil)
}

// WireRoundTrip marshals and unmarshals the transactions, as ordering does with every batch:
// what gets executed is what every other replica would decode from the wire (e.g. an empty
// payload becomes nil).
func WireRoundTrip(txs []pb.Transaction) []pb.Transaction {
	if len(txs) == 0 {
		return txs
	}
	raw, err := (&pb.Transactions{Transactions: txs}).Marshal()
	if err != nil {
		return txs
	}
	out := &pb.Transactions{}
	if err := out.Unmarshal(raw); err != nil || len(out.Transactions) != len(txs) {
		return txs
	}
	return out.Transactions
}

func (w *World) BVM(k *Key, contract *types.Address, method string, args ...*pb.Arg) *pb.BxhTransaction {
	return BVMTx(k, w.Nonce(k.Addr), w.Stamp(), contract, method, args...)
}

// Call executes a single-transaction block and returns its receipt.
func (w *World) Call(k *Key, contract *types.Address, method string, args ...*pb.Arg) (*pb.Receipt, error) {
	res, err := w.Exec(w.BVM(k, contract, method, args...))
	if err != nil {
		return nil, err
	}
	return res.Receipts[0], nil
}

func (w *World) Transfer(k *Key, to *types.Address, amount string) *pb.BxhTransaction {
	return TransferTx(k, w.Nonce(k.Addr), w.Stamp(), to, amount)
}

// ProposalID extracts the proposal id from a governance receipt.
func ProposalID(rc *pb.Receipt) string {
	var g struct {
		ProposalID string `json:"proposal_id"`
	}
	json.Unmarshal(rc.Ret, &g)
	return g.ProposalID
}

// VoteAll lets the first n genesis admins vote on the proposal, all in one block.
func (w *World) VoteAll(pid string, n int, ballot string) (*BlockResult, error) {
	var txs []pb.Transaction
	for i := 0; i < n; i++ {
		txs = append(txs, w.BVM(AdminKey(i), AddrGov, "Vote", pb.String(pid), pb.String(ballot), pb.String("reason")))
	}
	return w.Exec(txs...)
}

// Approve lets every genesis admin vote "approve" (votes after the conclusion are refused, which
// is fine) and checks that the proposal ended approved.
func (w *World) Approve(pid string) error {
	if _, err := w.VoteAll(pid, len(w.R.Cfg.Genesis.Admins), "approve"); err != nil {
		return err
	}
	rc := w.R.Query(AddrGov, "GetProposal", pb.String(pid))
	var p struct {
		Status string `json:"status"`
	}
	json.Unmarshal(rc.Ret, &p)
	if p.Status != "approve" {
		return fmt.Errorf("proposal %s not approved after all admins voted (status %q)", pid, p.Status)
	}
	return nil
}

func mustOK(rc *pb.Receipt, err error, what string) error {
	if err != nil {
		return fmt.Errorf("%s: %v", what, err)
	}
	if rc.Status != pb.Receipt_SUCCESS {
		return fmt.Errorf("%s: receipt FAILED: %s", what, string(rc.Ret))
	}
	return nil
}

// RegisterAppchain registers and approves an appchain whose admin is k.
func (w *World) RegisterAppchain(k *Key, chainID, chainType, ruleAddr string, trustRoot []byte) error {
	rc, err := w.Call(k, AddrAppchain, "RegisterAppchain",
		pb.String(chainID), pb.String("name-"+chainID), pb.Bytes(nil), pb.String(chainType), pb.Bytes(trustRoot),
		pb.String("123"), pb.String("desc"), pb.String(ruleAddr), pb.String("url"), pb.String(k.Addr.String()), pb.String("reason"))
	if err := mustOK(rc, err, "RegisterAppchain "+chainID); err != nil {
		return err
	}
	return w.Approve(ProposalID(rc))
}

// RegisterService registers and approves a service of chainID (k = chain admin).
func (w *World) RegisterService(k *Key, chainID, svc string, ordered bool, blacklist string) error {
	ord := uint64(0)
	if ordered {
		ord = 1
	}
	rc, err := w.Call(k, AddrService, "RegisterService",
		pb.String(chainID), pb.String(svc), pb.String("svc-"+chainID+"-"+svc), pb.String("CallContract"), pb.String("intro"),
		pb.Uint64(ord), pb.String(blacklist), pb.String("details"), pb.String("reason"))
	if err := mustOK(rc, err, "RegisterService "+chainID+":"+svc); err != nil {
		return err
	}
	return w.Approve(ProposalID(rc))
}

// PermitOnlyUpdate builds an UpdateService call that keeps the service's current name and details and
// only replaces its black list: the contract applies such an update at once, without a proposal.
// svc is "<chain>:<service>". ok is false when the service cannot be read.
func (w *World) PermitOnlyUpdate(k *Key, svc string, blacklist string) (tx *pb.BxhTransaction, ok bool) {
	rc := w.R.Query(AddrService, "GetServiceInfo", pb.String(svc))
	var s struct {
		Name    string `json:"name"`
		Intro   string `json:"intro"`
		Details string `json:"details"`
	}
	if rc.Status != pb.Receipt_SUCCESS || json.Unmarshal(rc.Ret, &s) != nil || s.Name == "" {
		return nil, false
	}
	return w.BVM(k, AddrService, "UpdateService", pb.String(svc), pb.String(s.Name), pb.String(s.Intro), pb.String(blacklist), pb.String(s.Details), pb.String("reason")), true
}

// Eth builds an Ethereum-format transaction of the named deterministic sender with its next nonce
// (nonceDelta shifts it: -1 = replay of the previous nonce, +1 = gap).
func (w *World) Eth(sender string, nonceDelta int64, gas uint64, gasPrice, value *big.Int, to *types.Address, data []byte) pb.Transaction {
	k := EthKey(sender)
	a := EthAddr(k)
	n := int64(w.Nonce(a)) + nonceDelta // Nonce() has taken the next one
	if n < 0 {
		n = 0
	}
	// the executor sets the account's nonce to (transaction nonce + 1) whatever the outcome
	w.N[a.String()] = uint64(n) + 1
	return EthTx(k, w.R.Cfg.Genesis.ChainID, uint64(n), gas, gasPrice, value, to, data, w.Stamp())
}

// FullID is the full service id on this hub.
func FullID(chain, svc string) string { return BxhID + ":" + chain + ":" + svc }

// Standard fixture names.
const (
	ChainA = "chainA"
	ChainB = "chainB"
	ChainC = "chainC"
)

func ChainAdmin(chain string) *Key { return DetKey("chain-admin-" + chain) }
func User(i int) *Key              { return DetKey(fmt.Sprintf("user-%d", i)) }
func Pauper() *Key                 { return DetKey("pauper") }

const Rich = "1000000000000000000000" // 1e21: enough for ~9.5e10 BVM fees at price 50000

// BuildStandard builds the shared fixture: funded users and chain admins, three appchains with
// the always-true rule and two ordered services each. Everything goes through real transactions.
func BuildStandard(dir string, o Options) (*World, error) {
	w, err := OpenWorld(dir, o)
	if err != nil {
		return nil, err
	}
	return w, w.BuildStandard()
}

// BuildStandard runs the fixture transactions on an open world.
func (w *World) BuildStandard() error {
	var err error
	a0 := AdminKey(0)
	var fund []pb.Transaction
	for _, c := range []string{ChainA, ChainB, ChainC, "chainW", "chainT", "chainU", "hub2"} {
		fund = append(fund, w.Transfer(a0, ChainAdmin(c).Addr, Rich))
	}
	for i := 0; i < 4; i++ {
		fund = append(fund, w.Transfer(a0, User(i).Addr, Rich))
	}
	fund = append(fund, w.Transfer(a0, Pauper().Addr, "12000000000")) // one BVM fee and a bit
	res, err := w.Exec(fund...)
	if err != nil {
		return err
	}
	for _, r := range res.Receipts {
		if r.Status != pb.Receipt_SUCCESS {
			return fmt.Errorf("funding failed: %s", string(r.Ret))
		}
	}
	for _, c := range []string{ChainA, ChainB, ChainC} {
		if err := w.RegisterAppchain(ChainAdmin(c), c, "ETH", validator.HappyRuleAddr, nil); err != nil {
			return err
		}
		for _, s := range []string{"s1", "s2"} {
			if err := w.RegisterService(ChainAdmin(c), c, s, true, ""); err != nil {
				return err
			}
		}
	}
	return nil
}

// CopyDir copies a closed replica directory.
func CopyDir(src, dst string) error {
	out, err := exec.Command("cp", "-r", src, dst).CombinedOutput()
	if err != nil {
		return fmt.Errorf("cp -r: %v %s", err, strings.TrimSpace(string(out)))
	}
	return nil
}

// IBTP builds an IBTP with the given coordinates.
func MkIBTP(from, to string, idx uint64, typ pb.IBTP_Type, timeout int64) *pb.IBTP {
	return &pb.IBTP{From: from, To: to, Index: idx, Type: typ, TimeoutHeight: timeout, Payload: []byte("payload")}
}

// SendIBTP wraps the IBTP in a tx signed by k (any funded account acts as the pier) with the given proof.
func (w *World) IBTPTx(k *Key, ibtp *pb.IBTP, proof []byte) *pb.BxhTransaction {
	return IBTPTx(k, w.Nonce(k.Addr), w.Stamp(), ibtp, proof, nil)
}

// Status queries the transaction manager; returns -1 if unknown.
func (w *World) Status(id string) int {
	rc := w.R.Query(AddrTxMgr, "GetStatus", pb.String(id))
	if rc.Status != pb.Receipt_SUCCESS {
		return -1
	}
	var n int
	fmt.Sscan(string(rc.Ret), &n)
	return n
}

// Interchain queries the interchain counters of a full service id (nil if not registered).
func (w *World) Interchain(id string) *pb.Interchain {
	rc := w.R.Query(AddrInterchain, "GetInterchain", pb.String(id))
	if rc.Status != pb.Receipt_SUCCESS {
		return nil
	}
	ic := &pb.Interchain{}
	if err := ic.Unmarshal(rc.Ret); err != nil {
		return nil
	}
	return ic
}

// BuildExtended = standard fixture + appchains bound to harness-authored WASM rules:
// chainW (accepts iff proof[0]==1, else plain false), chainT (rule traps), chainU (rule burns all fuel).
func BuildExtended(dir string, o Options) (*World, error) {
	w, err := OpenWorld(dir, o)
	if err != nil {
		return nil, err
	}
	return w, w.BuildExtended()
}

// BuildExtended runs the extended fixture transactions on an open world.
func (w *World) BuildExtended() error {
	if err := w.BuildStandard(); err != nil {
		return err
	}
	for _, ck := range [][2]string{{"chainW", "firstbyte"}, {"chainT", "trap"}, {"chainU", "burn"}} {
		k := ChainAdmin(ck[0])
		addr, err := w.DeployRule(k, ck[1])
		if err != nil {
			return err
		}
		if err := w.RegisterAppchain(k, ck[0], "ETH", addr, nil); err != nil {
			return err
		}
		if err := w.RegisterService(k, ck[0], "s1", true, ""); err != nil {
			return err
		}
	}
	return nil
}
