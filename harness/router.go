package harness

import (
	"fmt"
	"reflect"
	"sort"

	"github.com/meshplus/bitxhub-kit/types"
	"github.com/meshplus/bitxhub-model/pb"
	"github.com/meshplus/bitxhub/internal/router"
)

// RouterFinding is one disagreement between what the executor recorded for a block (its
// InterchainMeta) and what the real InterchainRouter hands to the piers for that block.
type RouterFinding struct {
	Part   string // transactions | timeout | multitx | roots | height
	Sig    string
	Detail string
}

// RouterMon feeds every executed block to the real router, as feedhub does, and reads the
// per-chain delivery sets back through both of its paths: the live subscription
// (AddPier + PutBlockAndMeta) and the replay query (GetInterchainTxWrappers, from the ledger).
type RouterMon struct {
	rt    *router.InterchainRouter
	chans map[string]chan *pb.InterchainTxWrappers
}

func newRouterMon(r *Replica) *RouterMon {
	rt, err := router.New(r.Log, r.Rep, r.L, nil, 1)
	if err != nil {
		return nil
	}
	m := &RouterMon{rt: rt, chans: map[string]chan *pb.InterchainTxWrappers{}}
	m.pier("never-addressed-pier")
	return m
}

func (m *RouterMon) pier(id string) {
	if _, ok := m.chans[id]; ok {
		return
	}
	ch, err := m.rt.AddPier(id)
	if err == nil {
		m.chans[id] = ch
	}
}

// sameHashes compares hash lists by value and order (types.Hash caches its string form, so
// DeepEqual would tell a decoded hash from a computed one).
func sameHashes(a, b []types.Hash) bool {
	if len(a) != len(b) {
		return false
	}
	for i := range a {
		if a[i].RawHash != b[i].RawHash {
			return false
		}
	}
	return true
}

type wantSet struct {
	txs     []string // "<hash>/<valid>/<batch>"
	timeout []string
	multi   []string
}

func wrapperSet(w *pb.InterchainTxWrapper) wantSet {
	var s wantSet
	for _, t := range w.GetTransactions() {
		h := "<nil>"
		if t.GetTx() != nil {
			h = t.GetTx().GetHash().String()
		}
		s.txs = append(s.txs, fmt.Sprintf("%s/%v/%v", h, t.GetValid(), t.GetIsBatch()))
	}
	s.timeout = append(s.timeout, w.GetTimeoutIbtps()...)
	s.multi = append(s.multi, w.GetMultiTxIbtps()...)
	return s
}

// Check returns the findings for one executed block. meta is the executor's event meta.
func (m *RouterMon) Check(block *pb.Block, meta *pb.InterchainMeta) []RouterFinding {
	if m == nil || block == nil || meta == nil {
		return nil
	}
	h := block.BlockHeader.Number
	want := map[string]*wantSet{}
	get := func(id string) *wantSet {
		if want[id] == nil {
			want[id] = &wantSet{}
		}
		return want[id]
	}
	for id, vs := range meta.Counter {
		ws := get(id)
		for _, vi := range vs.Slice {
			hs := "<nil>"
			if int(vi.Index) < len(block.Transactions.Transactions) {
				hs = block.Transactions.Transactions[vi.Index].GetHash().String()
			}
			ws.txs = append(ws.txs, fmt.Sprintf("%s/%v/%v", hs, vi.Valid, vi.IsBatch))
		}
	}
	for id, l := range meta.TimeoutCounter {
		get(id).timeout = append(get(id).timeout, l.GetSlice()...)
	}
	for id, l := range meta.MultiTxCounter {
		get(id).multi = append(get(id).multi, l.GetSlice()...)
	}
	for id := range want {
		m.pier(id)
	}
	var ids []string
	for id := range m.chans {
		ids = append(ids, id)
	}
	sort.Strings(ids)

	var out []RouterFinding
	add := func(part, path, kind, detail string) {
		out = append(out, RouterFinding{Part: part, Sig: fmt.Sprintf("router:%s:%s:%s", part, path, kind), Detail: detail})
	}
	compare := func(path, id string, w *pb.InterchainTxWrapper) {
		exp := want[id]
		if exp == nil {
			exp = &wantSet{}
		}
		if w == nil {
			add("height", path, "no-wrapper", fmt.Sprintf("block %d: chain %s got no wrapper at all", h, id))
			return
		}
		got := wrapperSet(w)
		if w.Height != h {
			add("height", path, "wrong-height", fmt.Sprintf("block %d: wrapper for chain %s carries height %d", h, id, w.Height))
		}
		if !sameHashes(w.L2Roots, meta.L2Roots) {
			add("roots", path, "l2roots-differ", fmt.Sprintf("block %d: wrapper for chain %s carries %d L2 roots, the block's meta has %d", h, id, len(w.L2Roots), len(meta.L2Roots)))
		}
		cmp := func(part string, g, e []string) {
			if len(g) == 0 && len(e) == 0 {
				return
			}
			if reflect.DeepEqual(g, e) {
				return
			}
			kind := "differs"
			if len(g) < len(e) {
				kind = "missing"
			} else if len(g) > len(e) {
				kind = "surplus"
			}
			add(part, path, kind, fmt.Sprintf("block %d: chain %s is handed %v, the executor recorded %v for it", h, id, g, e))
		}
		cmp("transactions", got.txs, exp.txs)
		cmp("timeout", got.timeout, exp.timeout)
		cmp("multitx", got.multi, exp.multi)
		if len(exp.timeout) > 0 && !sameHashes(w.TimeoutL2Roots, meta.TimeoutL2Roots) {
			add("timeout", path, "timeout-roots-differ", fmt.Sprintf("block %d: wrapper for chain %s carries timeout L2 roots %v, the block's meta has %v", h, id, w.TimeoutL2Roots, meta.TimeoutL2Roots))
		}
	}
	// live path
	m.rt.PutBlockAndMeta(block, meta)
	for _, id := range ids {
		select {
		case ws := <-m.chans[id]:
			if len(ws.GetInterchainTxWrappers()) != 1 {
				add("height", "live", "wrapper-count", fmt.Sprintf("block %d: chain %s received %d wrappers", h, id, len(ws.GetInterchainTxWrappers())))
				continue
			}
			compare("live", id, ws.InterchainTxWrappers[0])
		default:
			add("height", "live", "nothing-sent", fmt.Sprintf("block %d: subscribed chain %s received nothing", h, id))
		}
	}
	// replay path (reads block and meta back from the ledger)
	for _, id := range ids {
		ch := make(chan *pb.InterchainTxWrappers, 4)
		if err := m.rt.GetInterchainTxWrappers(id, h, h, ch); err != nil {
			add("height", "replay", "error", fmt.Sprintf("block %d: GetInterchainTxWrappers(%s): %v", h, id, err))
			continue
		}
		n := 0
		for ws := range ch {
			n++
			if len(ws.GetInterchainTxWrappers()) == 1 {
				compare("replay", id, ws.InterchainTxWrappers[0])
			}
		}
		if n != 1 {
			add("height", "replay", "wrapper-count", fmt.Sprintf("block %d: chain %s: replay produced %d messages", h, id, n))
		}
	}
	return out
}
