// Package harness wires the real bitxhub ledger + executor (no network, no consensus) the way
// internal/app.GenerateBitXHubWithoutOrder does, and offers observation primitives at public
// boundaries. It is the only part of /verif (with cmd/vworker) that links /repo.
package harness

import (
	"fmt"
	ethkittypes "github.com/meshplus/eth-kit/types"
	"io/ioutil"
	"math/big"
	"os"
	"path/filepath"
	"sort"
	"sync"
	"sync/atomic"
	"time"

	"github.com/meshplus/bitxhub-kit/crypto"
	"github.com/meshplus/bitxhub-kit/crypto/asym/ecdsa"
	"github.com/meshplus/bitxhub-kit/storage"
	"github.com/meshplus/bitxhub-kit/storage/blockfile"
	"github.com/meshplus/bitxhub-kit/types"
	"github.com/meshplus/bitxhub-model/pb"
	"github.com/meshplus/bitxhub/internal/executor"
	"github.com/meshplus/bitxhub/internal/executor/oracle/appchain"
	"github.com/meshplus/bitxhub/internal/ledger"
	"github.com/meshplus/bitxhub/internal/ledger/genesis"
	"github.com/meshplus/bitxhub/internal/model/events"
	"github.com/meshplus/bitxhub/internal/repo"
	"github.com/sirupsen/logrus"
)

// Options selects the configuration of a replica. The zero value is the shipped configuration
// (simple ledger, serial executor, serial proofs, audit on, gas price 50000, chain id 1356).
type Options struct {
	ProofType      string // "serial" (default) | "parallel"
	NoAudit        bool
	GasPrice       int64 // default 50000; -1 = 0
	NumAdmins      int   // default 4 (all weight 2)
	OrdinaryAdmins int   // the last so many genesis admins have weight 1 (ordinary admins)
	Strategy       string
	ChainID        uint64
	CacheSizes     [3]int // if non-zero: NewAccountCacheSized
	Watchdog       time.Duration
	GenesisBal     string
	LogToStderr    bool
	NoRouter       bool // do not feed executed blocks to the router monitor
	RootMon        bool // compare every block's state-store changes with its journal / state root (rootmon.go)
	ReaderMon      bool // a concurrent reader polls the chain ledger while blocks are executed and persisted
}

// Key is a deterministic secp256k1 account.
type Key struct {
	Priv crypto.PrivateKey
	Addr *types.Address
}

// DetKey derives a key from a label; the same label always gives the same account.
func DetKey(label string) *Key {
	h := types.NewHash(sha(label)).Bytes()
	// make sure the scalar is in range: clear top bit, set a low bit
	h[0] &= 0x7f
	h[31] |= 1
	priv, err := ecdsa.UnmarshalPrivateKey(h, crypto.Secp256k1)
	if err != nil {
		panic(err)
	}
	addr, err := priv.PublicKey().Address()
	if err != nil {
		panic(err)
	}
	return &Key{Priv: priv, Addr: addr}
}

// AdminKey returns the i-th genesis admin key.
func AdminKey(i int) *Key { return DetKey(fmt.Sprintf("admin-%d", i)) }

type BlockResult struct {
	Height   uint64
	Block    *pb.Block
	Receipts []*pb.Receipt
	Meta     *pb.InterchainMeta
}

type Replica struct {
	Dir   string
	Opts  Options
	Cfg   *repo.Config
	Rep   *repo.Repo
	L     *ledger.Ledger
	ViewL *ledger.Ledger
	Exec  *executor.BlockExecutor
	View  *executor.BlockExecutor
	BC    storage.Storage
	ST    storage.Storage
	BF    *blockfile.BlockFile
	Log   *logrus.Logger

	blockCh chan events.ExecutedEvent
	closed  bool

	// router monitor (see router.go): findings accumulate until a workload takes them
	routerMon      *RouterMon
	RouterFindings []RouterFinding
	RouterBlocks   int

	// root monitor (see rootmon.go)
	RootFindings []RootFinding
	RootBlocks   int
	RootJournals int
	RootAccounts int
	rootPrev     map[string][]byte
	dirtyMu      sync.Mutex
	dirtyLate    [][]string // accounts still dirty at "exec.block.before_clear", one entry per offending block
	DirtyLooks   int
	rootExecs    int

	// reader monitor (ReaderMon): what a concurrent reader of the chain ledger saw
	readerMu       sync.Mutex
	ReaderFindings []Finding
	ReaderPolls    int64
}

// readerPoll is one look of a concurrent reader (an API call, the syncer): whatever height and head hash the
// chain meta names must already be answerable by the indexes and the block file.
func (r *Replica) readerPoll() {
	m := r.L.GetChainMeta()
	if m == nil || m.Height == 0 || m.BlockHash == nil {
		return
	}
	add := func(sig, detail string) {
		r.readerMu.Lock()
		if len(r.ReaderFindings) < 4 {
			r.ReaderFindings = append(r.ReaderFindings, Finding{sig, detail})
		}
		r.readerMu.Unlock()
	}
	if h := r.L.GetBlockHash(m.Height); h == nil || h.String() != m.BlockHash.String() {
		add("reader:meta-ahead-of-height-index", fmt.Sprintf("chain meta names height %d with head %s, GetBlockHash(%d) answers %v at that moment", m.Height, m.BlockHash, m.Height, h))
		return
	}
	if b, err := r.L.GetBlockByHash(m.BlockHash, false); err != nil || b == nil || b.BlockHeader == nil || b.BlockHeader.Number != m.Height {
		add("reader:meta-ahead-of-block", fmt.Sprintf("chain meta names height %d with head %s, GetBlockByHash answers %v at that moment", m.Height, m.BlockHash, err))
	}
}

// TakeRouterFindings returns and clears the router monitor's findings.
func (r *Replica) TakeRouterFindings() []RouterFinding {
	f := r.RouterFindings
	r.RouterFindings = nil
	return f
}

func (o Options) withDefaults() Options {
	if o.ProofType == "" {
		o.ProofType = "serial"
	}
	if o.GasPrice == 0 {
		o.GasPrice = 50000
	}
	if o.GasPrice < 0 {
		o.GasPrice = 0
	}
	if o.NumAdmins == 0 {
		o.NumAdmins = 4
	}
	if o.Strategy == "" {
		o.Strategy = "a > 0.5 * t"
	}
	if o.ChainID == 0 {
		o.ChainID = 1356
	}
	if o.Watchdog == 0 {
		o.Watchdog = 120 * time.Second
	}
	if o.GenesisBal == "" {
		o.GenesisBal = "100000000000000000000000000000000000"
	}
	return o
}

func BuildConfig(o Options) *repo.Config {
	o = o.withDefaults()
	cfg, _ := repo.DefaultConfig()
	cfg.Ledger.Type = "simple"
	cfg.Executor.Type = "serial"
	cfg.Executor.ProofType = o.ProofType
	cfg.Executor.EnableAudit = !o.NoAudit
	cfg.Genesis.ChainID = o.ChainID
	cfg.Genesis.BvmGasPrice = uint64(o.GasPrice)
	cfg.Genesis.Balance = o.GenesisBal
	cfg.Genesis.Admins = nil
	for i := 0; i < o.NumAdmins; i++ {
		wt := uint64(2)
		if i >= o.NumAdmins-o.OrdinaryAdmins && i > 0 {
			wt = 1 // an ordinary governance admin; admin 0 is always a super admin
		}
		cfg.Genesis.Admins = append(cfg.Genesis.Admins, &repo.Admin{Address: AdminKey(i).Addr.String(), Weight: wt})
	}
	cfg.Genesis.Strategy = nil
	for _, m := range []string{"appchain_mgr", "proposal_strategy_mgr", "rule_mgr", "node_mgr", "service_mgr", "role_mgr", "dapp_mgr"} {
		cfg.Genesis.Strategy = append(cfg.Genesis.Strategy, &repo.Strategy{Module: m, Typ: "SimpleMajority", Extra: o.Strategy})
	}
	return cfg
}

// Open opens (or creates, running genesis) a replica in dir.
func Open(dir string, o Options) (r *Replica, err error) {
	defer func() {
		if p := recover(); p != nil {
			err = fmt.Errorf("panic while opening replica: %v", p)
		}
	}()
	o = o.withDefaults()
	cfg := BuildConfig(o)
	cfg.RepoRoot = dir
	// as cmd/bitxhub does at start: the signer that recovers the sender of Ethereum-format transactions
	ethkittypes.InitEIP155Signer(new(big.Int).SetUint64(cfg.Genesis.ChainID))
	lg := logrus.New()
	if o.LogToStderr {
		lg.SetOutput(os.Stderr)
		lg.SetLevel(logrus.InfoLevel)
	} else {
		lg.SetOutput(ioutil.Discard)
		lg.SetLevel(logrus.PanicLevel)
	}
	rep := &repo.Repo{Config: cfg, NetworkConfig: &repo.NetworkConfig{}, Key: &repo.Key{PrivKey: DetKey("node-key").Priv, Address: DetKey("node-key").Addr.String()}}
	if err := os.MkdirAll(dir, 0755); err != nil {
		return nil, err
	}
	bc, err := ledger.OpenChainDB(filepath.Join(dir, "storage", "blockchain"), &cfg.Ledger)
	if err != nil {
		return nil, fmt.Errorf("open chain db: %w", err)
	}
	stAny, err := ledger.OpenStateDB(filepath.Join(dir, "storage", "ledger"), &cfg.Ledger)
	if err != nil {
		return nil, fmt.Errorf("open state db: %w", err)
	}
	st := stAny.(storage.Storage)
	bf, err := blockfile.NewBlockFile(dir, lg)
	if err != nil {
		return nil, fmt.Errorf("blockfile: %w", err)
	}
	var ac *ledger.AccountCache
	if o.CacheSizes[0] != 0 {
		ac, err = newSizedCache(o.CacheSizes)
		if err != nil {
			return nil, err
		}
	}
	l, err := ledger.New(rep, bc, st, bf, ac, lg)
	if err != nil {
		return nil, fmt.Errorf("ledger.New: %w", err)
	}
	viewL := &ledger.Ledger{ChainLedger: l.ChainLedger}
	viewL.StateLedger, err = ledger.NewSimpleLedger(rep, st, nil, lg)
	if err != nil {
		return nil, err
	}
	view, err := executor.New(viewL, lg, &appchain.Client{}, cfg, big.NewInt(0))
	if err != nil {
		return nil, err
	}
	if l.GetChainMeta().Height == 0 {
		if err := genesis.Initialize(&cfg.Genesis, nil, 0, l, view); err != nil {
			return nil, fmt.Errorf("genesis: %w", err)
		}
	}
	ex, err := executor.New(l, lg, &appchain.Client{}, cfg, big.NewInt(o.GasPrice))
	if err != nil {
		return nil, err
	}
	r = &Replica{Dir: dir, Opts: o, Cfg: cfg, Rep: rep, L: l, ViewL: viewL, Exec: ex, View: view, BC: bc, ST: st, BF: bf, Log: lg,
		blockCh: make(chan events.ExecutedEvent, 16)}
	ex.SubscribeBlockEvent(r.blockCh)
	if err := ex.Start(); err != nil {
		return nil, err
	}
	if o.RootMon {
		r.watchDirty()
	}
	return r, nil
}

// Close closes the storages. The executor's goroutines stay parked (never Stop(): it would close
// the ledger a second time asynchronously).
func (r *Replica) Close() {
	if r.closed {
		return
	}
	r.closed = true
	r.L.Close()
}

func (r *Replica) Height() uint64 { return r.L.GetChainMeta().Height }

var ErrWatchdog = fmt.Errorf("watchdog: no ExecutedEvent")

// ExecBlock feeds one block at height current+1 and waits for the executed event.
func (r *Replica) ExecBlock(txs []pb.Transaction, ts int64, local []bool) (*BlockResult, error) {
	return r.ExecBlockAt(r.Height()+1, txs, ts, local)
}

func (r *Replica) ExecBlockAt(h uint64, txs []pb.Transaction, ts int64, local []bool) (*BlockResult, error) {
	if local == nil {
		local = make([]bool, len(txs))
	}
	blk := &pb.Block{
		BlockHeader:  &pb.BlockHeader{Number: h, Timestamp: ts},
		Transactions: &pb.Transactions{Transactions: txs},
	}
	// only while a block is appended at the head: a rollback (a block fed at or below the head) rewrites the
	// stores in place and its intermediate states are not what the statement is about
	if r.Opts.ReaderMon && h == r.Height()+1 {
		stop := make(chan struct{})
		done := make(chan struct{})
		go func() {
			defer close(done)
			for {
				select {
				case <-stop:
					return
				default:
				}
				r.readerPoll()
				atomic.AddInt64(&r.ReaderPolls, 1)
			}
		}()
		defer func() { close(stop); <-done }()
	}
	r.Exec.ExecuteBlock(&pb.CommitEvent{Block: blk, LocalList: local})
	select {
	case ev := <-r.blockCh:
		res := &BlockResult{Height: ev.Block.BlockHeader.Number, Block: ev.Block, Meta: ev.InterchainMeta}
		if !r.Opts.NoRouter {
			if r.routerMon == nil {
				r.routerMon = newRouterMon(r)
			}
			r.RouterFindings = append(r.RouterFindings, r.routerMon.Check(ev.Block, ev.InterchainMeta)...)
			r.RouterBlocks++
		}
		r.rootCheck(ev.Block)
		for _, tx := range txs {
			rc, err := r.L.GetReceipt(tx.GetHash())
			if err != nil {
				return res, fmt.Errorf("receipt of tx %s missing: %v", tx.GetHash().String(), err)
			}
			// the lookup by transaction hash must answer with that transaction's receipt (C09)
			if rc == nil || rc.TxHash == nil || rc.TxHash.String() != tx.GetHash().String() {
				return res, fmt.Errorf("index:receipt-wrong-tx: block %d: GetReceipt(%s) right after the block was executed returns the receipt of another transaction", h, tx.GetHash().String())
			}
			res.Receipts = append(res.Receipts, rc)
		}
		return res, nil
	case <-time.After(r.Opts.Watchdog):
		return nil, ErrWatchdog
	}
}

// PipeBlock is one block of a pipelined run.
type PipeBlock struct {
	Txs   []pb.Transaction
	TS    int64
	Local []bool
}

// ExecPipelined hands several blocks to the executor at once, as consensus does when it runs ahead: the
// executor's signature stage works on the following blocks while its second stage executes and persists the
// current one. The results come back in order. (No root monitor here.)
func (r *Replica) ExecPipelined(blocks []PipeBlock) ([]*BlockResult, error) {
	h0 := r.Height()
	go func() {
		for i, b := range blocks {
			local := b.Local
			if local == nil {
				local = make([]bool, len(b.Txs))
			}
			blk := &pb.Block{
				BlockHeader:  &pb.BlockHeader{Number: h0 + 1 + uint64(i), Timestamp: b.TS},
				Transactions: &pb.Transactions{Transactions: b.Txs},
			}
			r.Exec.ExecuteBlock(&pb.CommitEvent{Block: blk, LocalList: local})
		}
	}()
	var out []*BlockResult
	for range blocks {
		select {
		case ev := <-r.blockCh:
			out = append(out, &BlockResult{Height: ev.Block.BlockHeader.Number, Block: ev.Block, Meta: ev.InterchainMeta})
		case <-time.After(r.Opts.Watchdog):
			return out, ErrWatchdog
		}
	}
	// the executor announces every executed block from a goroutine of its own (go blockFeed.Send): when blocks are
	// executed back to back the announcements can overtake each other. Their order is not part of any result;
	// every height has to be announced exactly once.
	sort.SliceStable(out, func(i, j int) bool { return out[i].Height < out[j].Height })
	if !r.Opts.NoRouter {
		for _, res := range out { // the router monitor sees the blocks in height order
			if r.routerMon == nil {
				r.routerMon = newRouterMon(r)
			}
			r.RouterFindings = append(r.RouterFindings, r.routerMon.Check(res.Block, res.Meta)...)
			r.RouterBlocks++
		}
	}
	for i, res := range out {
		if res.Height != h0+1+uint64(i) {
			return out, fmt.Errorf("pipelined run: the %d executed events do not cover heights %d..%d exactly once (position %d holds height %d)", len(out), h0+1, h0+uint64(len(blocks)), i, res.Height)
		}
		for _, tx := range blocks[i].Txs {
			rc, err := r.L.GetReceipt(tx.GetHash())
			if err != nil {
				return out, fmt.Errorf("receipt of tx %s missing: %v", tx.GetHash().String(), err)
			}
			res.Receipts = append(res.Receipts, rc)
		}
	}
	return out, nil
}

// Dump returns every key/value of the state store (journal-* keys kept under their names).
func DumpStore(s storage.Storage) map[string][]byte {
	out := map[string][]byte{}
	it := s.Iterator(nil, nil)
	for it.Next() {
		k := append([]byte{}, it.Key()...)
		v := append([]byte{}, it.Value()...)
		out[string(k)] = v
	}
	return out
}

func (r *Replica) DumpState() map[string][]byte { return DumpStore(r.ST) }
func (r *Replica) DumpChain() map[string][]byte { return DumpStore(r.BC) }

func SortedKeys(m map[string][]byte) []string {
	ks := make([]string, 0, len(m))
	for k := range m {
		ks = append(ks, k)
	}
	sort.Strings(ks)
	return ks
}
