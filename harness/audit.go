package harness

import (
	"bytes"
	"fmt"

	"github.com/cbergoon/merkletree"
	"github.com/meshplus/bitxhub-kit/types"
	"github.com/meshplus/bitxhub-model/pb"
)

// Finding is one audit failure: (signature, detail).
type Finding struct{ Sig, Detail string }

func merkleRoot(hashes []*types.Hash) (*types.Hash, error) {
	if len(hashes) == 0 {
		return &types.Hash{}, nil
	}
	cs := make([]merkletree.Content, 0, len(hashes))
	for _, h := range hashes {
		cs = append(cs, h)
	}
	t, err := merkletree.NewTree(cs)
	if err != nil {
		return nil, err
	}
	return types.NewHash(t.MerkleRoot()), nil
}

// ExecRecord is what the harness saw when a block was executed (the ExecutedEvent).
type ExecRecord struct {
	Height   uint64
	Hash     string
	TxHashes []string
	Counted  uint64 // number of delivery entries in this block's Counter
}

// AuditChain checks C09 over heights 1..head of a replica: hash links, independently recomputed
// Merkle roots, every index, chain meta; recs (optional, by height) are the executed events.
func (r *Replica) AuditChain(recs map[uint64]*ExecRecord) (fs []Finding, blocks, lookups int) {
	l := r.L
	meta := l.GetChainMeta()
	var prev *pb.Block
	var cum uint64
	for h := uint64(1); h <= meta.Height; h++ {
		blk, err := l.GetBlock(h, true)
		if err != nil {
			fs = append(fs, Finding{"chain:block-lost", fmt.Sprintf("GetBlock(%d) below the head %d fails: %v", h, meta.Height, err)})
			prev = nil
			continue
		}
		blocks++
		bh := blk.BlockHeader
		if bh == nil || blk.BlockHash == nil {
			fs = append(fs, Finding{"chain:header-missing", fmt.Sprintf("block %d has no header/hash", h)})
			continue
		}
		if bh.Number != h {
			fs = append(fs, Finding{"chain:number", fmt.Sprintf("GetBlock(%d) returns a block numbered %d", h, bh.Number)})
		}
		if !bytes.Equal(bh.Hash().Bytes(), blk.BlockHash.Bytes()) {
			fs = append(fs, Finding{"chain:hash-not-header-hash", fmt.Sprintf("block %d: stored hash %s, hash of its header %s", h, blk.BlockHash, bh.Hash())})
		}
		if prev != nil {
			if bh.ParentHash == nil || !bytes.Equal(bh.ParentHash.Bytes(), prev.BlockHash.Bytes()) {
				fs = append(fs, Finding{"chain:parent-link", fmt.Sprintf("block %d: parent hash %v, hash of block %d is %s", h, bh.ParentHash, h-1, prev.BlockHash)})
			}
		}
		var txh, rch []*types.Hash
		for i, tx := range blk.Transactions.Transactions {
			txh = append(txh, tx.GetHash())
			lookups++
			rc, err := l.GetReceipt(tx.GetHash())
			if err != nil || rc == nil {
				fs = append(fs, Finding{"index:receipt-missing", fmt.Sprintf("block %d tx %d: GetReceipt fails: %v", h, i, err)})
				continue
			}
			if rc.TxHash == nil || !bytes.Equal(rc.TxHash.Bytes(), tx.GetHash().Bytes()) {
				fs = append(fs, Finding{"index:receipt-wrong-tx", fmt.Sprintf("block %d tx %d: receipt belongs to %v", h, i, rc.TxHash)})
			}
			rch = append(rch, rc.Hash())
			tm, err := l.GetTransactionMeta(tx.GetHash())
			if err != nil || tm == nil {
				fs = append(fs, Finding{"index:txmeta-missing", fmt.Sprintf("block %d tx %d: GetTransactionMeta fails: %v", h, i, err)})
			} else if tm.BlockHeight != h || tm.Index != uint64(i) || !bytes.Equal(tm.BlockHash, blk.BlockHash.Bytes()) {
				fs = append(fs, Finding{"index:txmeta-wrong", fmt.Sprintf("block %d tx %d: meta says height %d index %d", h, i, tm.BlockHeight, tm.Index)})
			}
			gtx, err := l.GetTransaction(tx.GetHash())
			if err != nil || gtx == nil || !bytes.Equal(gtx.GetHash().Bytes(), tx.GetHash().Bytes()) {
				fs = append(fs, Finding{"index:tx-lookup", fmt.Sprintf("block %d tx %d: GetTransaction by hash fails or returns another tx: %v", h, i, err)})
			}
		}
		if root, err := merkleRoot(txh); err == nil {
			if bh.TxRoot == nil || !bytes.Equal(root.Bytes(), bh.TxRoot.Bytes()) {
				fs = append(fs, Finding{"root:tx", fmt.Sprintf("block %d: header tx root %v, Merkle root recomputed over the %d stored txs %s", h, bh.TxRoot, len(txh), root)})
			}
		}
		if len(rch) == len(txh) {
			if root, err := merkleRoot(rch); err == nil {
				if bh.ReceiptRoot == nil || !bytes.Equal(root.Bytes(), bh.ReceiptRoot.Bytes()) {
					fs = append(fs, Finding{"root:receipt", fmt.Sprintf("block %d: header receipt root %v, Merkle root recomputed over the %d stored receipts %s", h, bh.ReceiptRoot, len(rch), root)})
				}
			}
		}
		lookups++
		if b2, err := l.GetBlockByHash(blk.BlockHash, false); err != nil || b2 == nil || b2.BlockHeader.Number != h {
			fs = append(fs, Finding{"index:block-by-hash", fmt.Sprintf("block %d: GetBlockByHash(%s) fails or returns another height: %v", h, blk.BlockHash, err)})
		}
		lookups++
		if gh := l.GetBlockHash(h); gh == nil || !bytes.Equal(gh.Bytes(), blk.BlockHash.Bytes()) {
			fs = append(fs, Finding{"index:block-hash-by-height", fmt.Sprintf("block %d: GetBlockHash(%d) = %v, the block's hash is %s", h, h, gh, blk.BlockHash)})
		}
		im, err := l.GetInterchainMeta(h)
		if err != nil {
			fs = append(fs, Finding{"index:interchain-meta", fmt.Sprintf("block %d: GetInterchainMeta fails: %v", h, err)})
		} else {
			for _, s := range im.Counter {
				cum += uint64(len(s.Slice))
			}
		}
		if rec := recs[h]; rec != nil {
			if rec.Hash != blk.BlockHash.String() {
				fs = append(fs, Finding{"chain:differs-from-executed", fmt.Sprintf("block %d: stored hash %s, executed event had %s", h, blk.BlockHash, rec.Hash)})
			}
			if len(rec.TxHashes) != len(txh) {
				fs = append(fs, Finding{"chain:differs-from-executed", fmt.Sprintf("block %d: %d stored txs, %d executed", h, len(txh), len(rec.TxHashes))})
			} else {
				for i := range txh {
					if txh[i].String() != rec.TxHashes[i] {
						fs = append(fs, Finding{"chain:differs-from-executed", fmt.Sprintf("block %d tx %d differs from the executed one", h, i)})
						break
					}
				}
			}
		}
		prev = blk
	}
	if prev != nil {
		if !bytes.Equal(meta.BlockHash.Bytes(), prev.BlockHash.Bytes()) {
			fs = append(fs, Finding{"meta:head-hash", fmt.Sprintf("chain meta head hash %s, block %d hash %s", meta.BlockHash, meta.Height, prev.BlockHash)})
		}
		if meta.InterchainTxCount != cum {
			fs = append(fs, Finding{"meta:interchain-count", fmt.Sprintf("chain meta counts %d interchain txs, the blocks' delivery sets hold %d", meta.InterchainTxCount, cum)})
		}
	}
	return fs, blocks, lookups
}

// Removed describes objects that belonged to heights above a rollback target.
type Removed struct {
	Height    uint64
	BlockHash *types.Hash
	TxHashes  []*types.Hash
}

// AuditRemoved checks that no lookup returns anything belonging to the removed heights.
func (r *Replica) AuditRemoved(rm []Removed, stillValid map[string]bool) (fs []Finding, lookups int) {
	l := r.L
	head := l.GetChainMeta().Height
	for _, x := range rm {
		if x.Height <= head {
			// the height exists again (re-executed); only hash-keyed lookups of the old block are checked
			if stillValid[x.BlockHash.String()] {
				continue
			}
		} else {
			lookups += 2
			if b, err := l.GetBlock(x.Height, false); err == nil && b != nil {
				fs = append(fs, Finding{"stale:block-by-height", fmt.Sprintf("after rollback to %d GetBlock(%d) still answers", head, x.Height)})
			}
			if gh := l.GetBlockHash(x.Height); gh != nil && !bytes.Equal(gh.Bytes(), (&types.Hash{}).Bytes()) {
				fs = append(fs, Finding{"stale:block-hash-by-height", fmt.Sprintf("after rollback to %d GetBlockHash(%d) still answers %s", head, x.Height, gh)})
			}
		}
		lookups++
		if b, err := l.GetBlockByHash(x.BlockHash, false); err == nil && b != nil {
			fs = append(fs, Finding{"stale:block-by-hash", fmt.Sprintf("after rollback to %d GetBlockByHash of removed block %d still answers", head, x.Height)})
		}
		for _, th := range x.TxHashes {
			if stillValid[th.String()] {
				continue
			}
			lookups += 3
			if tx, err := l.GetTransaction(th); err == nil && tx != nil {
				fs = append(fs, Finding{"stale:tx", fmt.Sprintf("after rollback to %d GetTransaction of a tx of removed block %d still answers", head, x.Height)})
			}
			if m, err := l.GetTransactionMeta(th); err == nil && m != nil {
				fs = append(fs, Finding{"stale:txmeta", fmt.Sprintf("after rollback to %d GetTransactionMeta of a tx of removed block %d still answers", head, x.Height)})
			}
			if rc, err := l.GetReceipt(th); err == nil && rc != nil {
				fs = append(fs, Finding{"stale:receipt", fmt.Sprintf("after rollback to %d GetReceipt of a tx of removed block %d still answers", head, x.Height)})
			}
		}
	}
	return fs, lookups
}

// MerkleRoot exposes the audit's own Merkle computation (used to put well-formed roots into
// synthetic blocks that are handed to the ledger directly).
func MerkleRoot(hashes []*types.Hash) (*types.Hash, error) { return merkleRoot(hashes) }
