package harness

import (
	"crypto/ecdsa"
	"crypto/sha256"
	"math/big"
	"time"

	"github.com/ethereum/go-ethereum/common"
	ethtypes "github.com/ethereum/go-ethereum/core/types"
	ethcrypto "github.com/ethereum/go-ethereum/crypto"
	"github.com/meshplus/bitxhub-kit/types"
	"github.com/meshplus/bitxhub-model/constant"
	"github.com/meshplus/bitxhub-model/pb"
	ethkittypes "github.com/meshplus/eth-kit/types"
)

func sha(s string) []byte {
	h := sha256.Sum256([]byte(s))
	return h[:]
}

// Nonces tracks the next nonce per account for the tx factory.
type Nonces map[string]uint64

func (n Nonces) Next(a *types.Address) uint64 {
	v := n[a.String()]
	n[a.String()] = v + 1
	return v
}

// Finish signs the tx and fixes its hash. extra (the IBTP proof) is attached after signing.
func Finish(tx *pb.BxhTransaction, k *Key, extra []byte) *pb.BxhTransaction {
	if err := tx.Sign(k.Priv); err != nil {
		panic(err)
	}
	tx.TransactionHash = tx.Hash()
	tx.Extra = extra
	return tx
}

// BVMTx builds a signed BVM invocation.
func BVMTx(k *Key, nonce uint64, ts int64, contract *types.Address, method string, args ...*pb.Arg) *pb.BxhTransaction {
	ip := &pb.InvokePayload{Method: method, Args: args}
	pl, err := ip.Marshal()
	if err != nil {
		panic(err)
	}
	td := &pb.TransactionData{Type: pb.TransactionData_INVOKE, VmType: pb.TransactionData_BVM, Payload: pl}
	data, err := td.Marshal()
	if err != nil {
		panic(err)
	}
	tx := &pb.BxhTransaction{From: k.Addr, To: contract, Payload: data, Timestamp: ts, Nonce: nonce}
	return Finish(tx, k, nil)
}

// TransferTx builds a signed native transfer with a decimal (or arbitrary) amount string.
func TransferTx(k *Key, nonce uint64, ts int64, to *types.Address, amount string) *pb.BxhTransaction {
	td := &pb.TransactionData{Type: pb.TransactionData_NORMAL, Amount: amount}
	data, err := td.Marshal()
	if err != nil {
		panic(err)
	}
	tx := &pb.BxhTransaction{From: k.Addr, To: to, Payload: data, Timestamp: ts, Nonce: nonce}
	return Finish(tx, k, nil)
}

// RawTx builds a signed tx with an arbitrary payload.
func RawTx(k *Key, nonce uint64, ts int64, to *types.Address, payload []byte) *pb.BxhTransaction {
	tx := &pb.BxhTransaction{From: k.Addr, To: to, Payload: payload, Timestamp: ts, Nonce: nonce}
	return Finish(tx, k, nil)
}

// XVMDeployTx deploys wasm code.
func XVMDeployTx(k *Key, nonce uint64, ts int64, code []byte) *pb.BxhTransaction {
	td := &pb.TransactionData{Type: pb.TransactionData_INVOKE, VmType: pb.TransactionData_XVM, Payload: code}
	data, err := td.Marshal()
	if err != nil {
		panic(err)
	}
	tx := &pb.BxhTransaction{From: k.Addr, To: &types.Address{}, Payload: data, Timestamp: ts, Nonce: nonce}
	return Finish(tx, k, nil)
}

// XVMInvokeTx invokes a deployed wasm contract.
func XVMInvokeTx(k *Key, nonce uint64, ts int64, to *types.Address, method string, args ...*pb.Arg) *pb.BxhTransaction {
	ip := &pb.InvokePayload{Method: method, Args: args}
	pl, _ := ip.Marshal()
	td := &pb.TransactionData{Type: pb.TransactionData_INVOKE, VmType: pb.TransactionData_XVM, Payload: pl}
	data, _ := td.Marshal()
	tx := &pb.BxhTransaction{From: k.Addr, To: to, Payload: data, Timestamp: ts, Nonce: nonce}
	return Finish(tx, k, nil)
}

// IBTPTx wraps an IBTP in a transaction. ibtp.Proof is set to sha256(proof) unless proofHash is
// given explicitly (for hash-mismatch cases).
func IBTPTx(k *Key, nonce uint64, ts int64, ibtp *pb.IBTP, proof []byte, proofHash []byte) *pb.BxhTransaction {
	if proofHash == nil {
		h := sha256.Sum256(proof)
		proofHash = h[:]
	}
	ibtp.Proof = proofHash
	b, err := ibtp.Marshal()
	if err != nil {
		panic(err)
	}
	ip := &pb.InvokePayload{Method: "HandleIBTP", Args: []*pb.Arg{pb.Bytes(b)}}
	pl, _ := ip.Marshal()
	td := &pb.TransactionData{Type: pb.TransactionData_INVOKE, VmType: pb.TransactionData_BVM, Payload: pl}
	data, _ := td.Marshal()
	tx := &pb.BxhTransaction{From: k.Addr, To: constant.InterchainContractAddr.Address(), Payload: data, Timestamp: ts, Nonce: nonce, IBTP: ibtp}
	return Finish(tx, k, proof)
}

// Query runs a read-only BVM call through the view executor.
func (r *Replica) Query(contract *types.Address, method string, args ...*pb.Arg) *pb.Receipt {
	ip := &pb.InvokePayload{Method: method, Args: args}
	pl, _ := ip.Marshal()
	td := &pb.TransactionData{Type: pb.TransactionData_INVOKE, VmType: pb.TransactionData_BVM, Payload: pl}
	data, _ := td.Marshal()
	from := DetKey("query-account").Addr
	tx := &pb.BxhTransaction{From: from, To: contract, Payload: data, Timestamp: 1, Nonce: 0}
	tx.TransactionHash = tx.Hash()
	rs := r.View.ApplyReadonlyTransactions([]pb.Transaction{tx})
	if len(rs) != 1 {
		return &pb.Receipt{Status: pb.Receipt_FAILED, Ret: []byte("view executor returned no receipt")}
	}
	return rs[0]
}

// ---- Ethereum-format transactions (signed legacy EIP-155, executed by the EVM)

// EthKey is a deterministic secp256k1 key for an Ethereum-format sender.
func EthKey(name string) *ecdsa.PrivateKey {
	h := sha256.Sum256([]byte("verif-eth-key:" + name))
	k, err := ethcrypto.ToECDSA(h[:])
	if err != nil {
		panic(err)
	}
	return k
}

func EthAddr(k *ecdsa.PrivateKey) *types.Address {
	return types.NewAddress(ethcrypto.PubkeyToAddress(k.PublicKey).Bytes())
}

// EthTx builds and signs an Ethereum-format transaction for the given chain id. to == nil deploys data.
func EthTx(k *ecdsa.PrivateKey, chainID uint64, nonce, gas uint64, gasPrice, value *big.Int, to *types.Address, data []byte, ts int64) *ethkittypes.EthTransaction {
	var toA *common.Address
	if to != nil {
		a := common.BytesToAddress(to.Bytes())
		toA = &a
	}
	signed, err := ethtypes.SignTx(ethtypes.NewTx(&ethtypes.LegacyTx{Nonce: nonce, GasPrice: gasPrice, Gas: gas, To: toA, Value: value, Data: data}),
		ethtypes.NewEIP155Signer(new(big.Int).SetUint64(chainID)), k)
	if err != nil {
		panic(err)
	}
	raw, err := signed.MarshalBinary()
	if err != nil {
		panic(err)
	}
	tx := &ethkittypes.EthTransaction{}
	if err := tx.Unmarshal(raw); err != nil {
		panic(err)
	}
	// as the API does when it accepts a raw transaction: arrival time and hash travel with it
	tx.Time = time.Unix(0, ts)
	tx.GetHash()
	return tx
}
