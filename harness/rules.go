package harness

import (
	"fmt"

	wasmtime "github.com/bytecodealliance/wasmtime-go"
	"github.com/meshplus/bitxhub-kit/types"
	"github.com/meshplus/bitxhub-model/pb"
)

// Harness-authored validation rules (test doubles: rules are data, not code under test).
// ABI expected by the validator: exports memory, allocate, deallocate, start_verify(proof, validators, payload) -> i32.
const ruleTemplate = `(module
  (memory (export "memory") 1)
  (global $heap (mut i32) (i32.const 1024))
  (func (export "allocate") (param $n i32) (result i32)
    (local $p i32)
    (if (i32.gt_u (i32.add (global.get $heap) (local.get $n)) (i32.const 60000))
      (then (global.set $heap (i32.const 1024))))
    (local.set $p (global.get $heap))
    (global.set $heap (i32.add (global.get $heap) (local.get $n)))
    (local.get $p))
  (func (export "deallocate") (param i32) (param i32))
  (func (export "start_verify") (param $proof i32) (param $validators i32) (param $payload i32) (result i32)
    %s))`

var ruleBodies = map[string]string{
	"firstbyte": `(i32.eq (i32.load8_u (local.get $proof)) (i32.const 1))`, // accept iff proof[0]==1, else plain "false"
	"trap":      `(unreachable)`,
	"burn":      `(loop $l (br $l)) (i32.const 1)`,
	"never":     `(i32.const 0)`,
}

// RuleWasm compiles one of the rule doubles.
func RuleWasm(kind string) ([]byte, error) {
	body, ok := ruleBodies[kind]
	if !ok {
		return nil, fmt.Errorf("unknown rule double %q", kind)
	}
	return wasmtime.Wat2Wasm(fmt.Sprintf(ruleTemplate, body))
}

// DeployRule deploys a rule double through a normal XVM deploy transaction and returns its address.
func (w *World) DeployRule(k *Key, kind string) (string, error) {
	code, err := RuleWasm(kind)
	if err != nil {
		return "", err
	}
	res, err := w.Exec(XVMDeployTx(k, w.Nonce(k.Addr), w.Stamp(), code))
	if err != nil {
		return "", err
	}
	rc := res.Receipts[0]
	if rc.Status != pb.Receipt_SUCCESS {
		return "", fmt.Errorf("deploying rule %s failed: %s", kind, string(rc.Ret))
	}
	return types.NewAddress(rc.Ret).String(), nil
}
