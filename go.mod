module github.com/meshplus/bitxhub/verif

go 1.14

require (
	github.com/Knetic/govaluate v3.0.1-0.20171022003610-9aa49832a739+incompatible
	github.com/anishathalye/porcupine v1.3.0
	github.com/bytecodealliance/wasmtime-go v0.37.0
	github.com/cbergoon/merkletree v0.2.0
	github.com/coreos/etcd v3.3.18+incompatible
	github.com/ethereum/go-ethereum v1.10.8
	github.com/libp2p/go-libp2p-core v0.5.6
	github.com/meshplus/bitxhub v0.0.0
	github.com/meshplus/bitxhub-core v1.28.1-0.20230411032641-11245b4adfc5
	github.com/meshplus/bitxhub-kit v1.28.0
	github.com/meshplus/bitxhub-model v1.28.1-0.20230411032618-24ca54eec606
	github.com/meshplus/eth-kit v1.28.0
	github.com/meshplus/go-lightp2p v1.28.0
	github.com/sirupsen/logrus v1.8.1
)

replace github.com/meshplus/bitxhub => /repo

replace google.golang.org/genproto => google.golang.org/genproto v0.0.0-20200218151345-dad8c97a84f5

replace google.golang.org/grpc => google.golang.org/grpc v1.33.0

replace github.com/hyperledger/fabric => github.com/hyperledger/fabric v2.0.1+incompatible

replace golang.org/x/net => golang.org/x/net v0.0.0-20200520004742-59133d7f0dd7

replace github.com/binance-chain/tss-lib => github.com/dawn-to-dusk/tss-lib v1.3.2-0.20220422023240-5ddc16a330ed

replace github.com/agl/ed25519 => github.com/binance-chain/edwards25519 v0.0.0-20200305024217-f36fc4b53d43

replace github.com/gogo/protobuf => github.com/regen-network/protobuf v1.3.2-alpha.regen.4

replace github.com/golang/protobuf => github.com/golang/protobuf v1.3.2

replace github.com/karalabe/usb => github.com/karalabe/usb v0.0.2
