package model

// Access classes of the built-in contracts' entry points, transcribed from property C17.

// Internal: exists for contract-to-contract use only; a direct call by ANY external account
// (whatever its role) must fail and change nothing.
var AclInternal = map[string][]string{
	"TransactionManager": {"Begin", "BeginMultiTXs", "BeginInterBitXHub", "Report"},
	"Governance":         {"SubmitProposal", "LockLowPriorityProposal", "UnLockLowPriorityProposal", "EndObjProposal", "UpdateAvailableElectorateNum", "ZeroPermission"},
	"AppchainManager":    {"Manage", "PauseAppchain", "UnPauseAppchain"},
	"ServiceManager":     {"Manage", "PauseChainService", "UnPauseChainService", "ClearChainService", "RecordInvokeService"},
	"RuleManager":        {"Manage", "ClearRule", "RegisterRuleFirst"},
	"RoleManager":        {"Manage", "OccupyAccount", "FreeAccount", "UpdateAppchainAdmin", "PauseAuditAdmin", "PauseAuditAdminBinding", "RestoreAuditAdminBinding"},
	"NodeManager":        {"Manage", "ManageBindNode"},
	"DappManager":        {"Manage"},
	"GovStrategy":        {"Manage", "UpdateProposalStrategyByRolesChange"},
	"InterchainManager":  {"HandleIBTPData", "Register"},
	"InterBroker":        {"InvokeInterchain", "InvokeReceipt"},
}

// Reserved: operations reserved to the owning chain's admin or to governance admins; a call by an
// account that is neither (outsider, admin of another appchain) must fail and change nothing.
var AclReserved = map[string][]string{
	"AppchainManager":   {"UpdateAppchain", "FreezeAppchain", "ActivateAppchain", "LogoutAppchain"},
	"ServiceManager":    {"RegisterService", "UpdateService", "FreezeService", "ActivateService", "LogoutService"},
	"RuleManager":       {"RegisterRule", "UpdateMasterRule", "LogoutRule"},
	"RoleManager":       {"RegisterRole", "FreezeRole", "ActivateRole", "LogoutRole", "BindRole"},
	"NodeManager":       {"RegisterNode", "LogoutNode", "UpdateNode", "BindNode", "UnbindNode"},
	"GovStrategy":       {"UpdateProposalStrategy", "UpdateAllProposalStrategy"},
	"Governance":        {"Vote", "WithdrawProposal"},
	"DappManager":       {"UpdateDapp", "FreezeDapp", "ActivateDapp", "TransferDapp", "ConfirmTransfer"},
	"InterchainManager": {"DeleteInterchain"},
}

func AclClass(contract, method string) string {
	for _, m := range AclInternal[contract] {
		if m == method {
			return "internal"
		}
	}
	for _, m := range AclReserved[contract] {
		if m == method {
			return "reserved"
		}
	}
	return ""
}
