package model

import (
	"fmt"
	"sort"
)

// Transaction statuses (values as in the protocol).
const (
	StBegin         = 0
	StBeginFailure  = 1
	StBeginRollback = 2
	StSuccess       = 3
	StFailure       = 4
	StRollback      = 5
	StNone          = -1
)

var StName = map[int]string{-1: "NONE", 0: "BEGIN", 1: "BEGIN_FAILURE", 2: "BEGIN_ROLLBACK", 3: "SUCCESS", 4: "FAILURE", 5: "ROLLBACK"}

// IBTP kinds.
const (
	KReq        = "req"
	KRcpSuccess = "rcpS"
	KRcpFailure = "rcpF"
	KRcpRollbk  = "rcpR"
)

// IxIBTP is the model's view of one submitted one-to-one IBTP between services of this hub.
type IxIBTP struct {
	From, To string // full service ids
	Index    uint64
	Kind     string
	Timeout  int64 // as carried in the IBTP (requests only)
	// DstUsable: the destination exists, is available and does not block the source. Given by the
	// workload (it controls the registry); false => a request is recorded as begin-failed.
	DstUsable bool
	// ProofOK: the proof of this IBTP verifies for its origin (requests: source chain's rule,
	// receipts: destination chain's rule). Given by the workload, which controls rules and proofs.
	ProofOK bool
}

func (i IxIBTP) ID() string   { return fmt.Sprintf("%s-%s-%d", i.From, i.To, i.Index) }
func (i IxIBTP) Pair() string { return i.From + "|" + i.To }

type IxTx struct {
	ID         string
	From, To   string
	Status     int
	Due        uint64 // 0 = never
	AcceptedAt uint64
	Registered bool // in the timeout list
	History    []string
}

type IxPair struct{ Req, Rcp uint64 }

// Ix is the sequential specification of one-to-one interchain handling (C02, C04, C06).
type Ix struct {
	H     uint64
	Pairs map[string]*IxPair
	Txs   map[string]*IxTx
}

func NewIx() *Ix { return &Ix{Pairs: map[string]*IxPair{}, Txs: map[string]*IxTx{}} }

func (m *Ix) pair(p string) *IxPair {
	if m.Pairs[p] == nil {
		m.Pairs[p] = &IxPair{}
	}
	return m.Pairs[p]
}

func (m *Ix) BeginBlock(h uint64) { m.H = h }

// Submit decides one IBTP in transaction order. It returns whether the specification accepts it
// and, if not, why; accepted IBTPs update the model.
func (m *Ix) Submit(i IxIBTP) (bool, string) {
	if !i.ProofOK {
		return false, "proof does not verify for the origin chain"
	}
	p := m.pair(i.Pair())
	switch i.Kind {
	case KReq:
		if i.Index != p.Req+1 {
			return false, fmt.Sprintf("request index %d, expected %d", i.Index, p.Req+1)
		}
		p.Req++
		tx := &IxTx{ID: i.ID(), From: i.From, To: i.To, AcceptedAt: m.H}
		if i.DstUsable {
			tx.Status = StBegin
			if i.Timeout > 0 && uint64(i.Timeout) < ^uint64(0)-m.H {
				tx.Due = m.H + uint64(i.Timeout)
				tx.Registered = true
			}
		} else {
			tx.Status = StBeginFailure
		}
		tx.History = append(tx.History, fmt.Sprintf("h%d:%s", m.H, StName[tx.Status]))
		m.Txs[tx.ID] = tx
		return true, ""
	default:
		if i.Index != p.Rcp+1 {
			return false, fmt.Sprintf("receipt index %d, expected %d", i.Index, p.Rcp+1)
		}
		tx := m.Txs[i.ID()]
		if tx == nil || i.Index > p.Req {
			return false, "receipt for a request that was never accepted"
		}
		next := StNone
		switch tx.Status {
		case StBegin:
			if i.Kind == KRcpSuccess {
				next = StSuccess
			} else if i.Kind == KRcpFailure {
				next = StFailure
			}
		case StBeginFailure:
			if i.Kind == KRcpFailure {
				next = StFailure
			}
		case StBeginRollback:
			if i.Kind == KRcpRollbk || i.Kind == KRcpFailure {
				next = StRollback
			}
		}
		if next == StNone {
			return false, fmt.Sprintf("receipt %s not allowed in status %s", i.Kind, StName[tx.Status])
		}
		tx.Status = next
		tx.Registered = false // an accepted receipt takes the request off the timeout list
		tx.History = append(tx.History, fmt.Sprintf("h%d:%s", m.H, StName[next]))
		p.Rcp++
		return true, ""
	}
}

// EndBlock applies expiry for the current height: ids listed per source service (the workload
// maps services to chains), in registration order.
func (m *Ix) EndBlock() []string {
	var out []string
	for _, tx := range m.Txs {
		if tx.Registered && tx.Due == m.H && tx.Status == StBegin {
			out = append(out, tx.ID)
		}
	}
	sort.Strings(out)
	for _, id := range out {
		tx := m.Txs[id]
		tx.Status = StBeginRollback
		tx.Registered = false
		tx.History = append(tx.History, fmt.Sprintf("h%d:timeout->BEGIN_ROLLBACK", m.H))
	}
	return out
}

// AllowedEdge reports whether old->new is a path of protocol transitions of length <= n
// (n accepted events for that id fell into one block).
func AllowedEdge(old, new int, n int) bool {
	if old == new {
		return true
	}
	edges := map[int][]int{
		StNone:          {StBegin, StBeginFailure},
		StBegin:         {StSuccess, StFailure, StBeginRollback, StRollback},
		StBeginFailure:  {StFailure},
		StBeginRollback: {StRollback},
	}
	frontier := map[int]bool{old: true}
	for step := 0; step < n; step++ {
		nf := map[int]bool{}
		for s := range frontier {
			for _, t := range edges[s] {
				if t == new {
					return true
				}
				nf[t] = true
			}
		}
		frontier = nf
	}
	return false
}

func IsFinal(s int) bool { return s == StSuccess || s == StFailure || s == StRollback }
