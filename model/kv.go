package model

import (
	"bytes"
	"math/big"
	"sort"
)

// KV is the sequential specification of the state ledger (C13): accounts with balance, nonce,
// code and storage; a block-local layer with nested snapshots; commit and reopen are no-ops for
// the specification because reads must not depend on where a value lives.
//
// Values: nil = absent/deleted, empty non-nil = present and empty.

type KVAcct struct {
	Balance *big.Int
	Nonce   uint64
	Code    []byte
	State   map[string][]byte
}

func (a *KVAcct) clone() *KVAcct {
	c := &KVAcct{Balance: new(big.Int).Set(a.Balance), Nonce: a.Nonce, Code: append([]byte(nil), a.Code...), State: map[string][]byte{}}
	if a.Code == nil {
		c.Code = nil
	}
	for k, v := range a.State {
		if v == nil {
			c.State[k] = nil
		} else {
			c.State[k] = append([]byte{}, v...)
		}
	}
	return c
}

type kvSnap struct {
	accts   map[string]*KVAcct
	unknown map[string]bool
}

type KV struct {
	Accts map[string]*KVAcct
	// Unknown marks (addr|key) whose value the specification does not determine: it was written
	// through the non-journaled AddState and a snapshot older than that write was reverted to.
	Unknown map[string]bool
	snaps   []kvSnap
	// keys written with the non-journaled Add since the given snapshot depth
	added []map[string]bool
}

func NewKV() *KV {
	return &KV{Accts: map[string]*KVAcct{}, Unknown: map[string]bool{}, added: []map[string]bool{{}}}
}

func (m *KV) acct(a string) *KVAcct {
	ac := m.Accts[a]
	if ac == nil {
		ac = &KVAcct{Balance: new(big.Int), State: map[string][]byte{}}
		m.Accts[a] = ac
	}
	return ac
}

func sk(a, k string) string { return a + "|" + k }

func (m *KV) Set(a, k string, v []byte) {
	m.acct(a).State[k] = cp(v)
	delete(m.Unknown, sk(a, k))
}

// Add is the write through AddState. It used to bypass the change journal (a revert then left the value
// undetermined, which is what the Unknown marks were for); since the repair 19e57a5f it is journaled like
// Set, and the specification treats it as such: a revert restores the value from before the Add.
func (m *KV) Add(a, k string, v []byte) {
	m.Set(a, k, v)
}

func cp(v []byte) []byte {
	if v == nil {
		return nil
	}
	return append([]byte{}, v...)
}

func (m *KV) Get(a, k string) (val []byte, known bool) {
	if m.Unknown[sk(a, k)] {
		return nil, false
	}
	return m.acct(a).State[k], true
}

func (m *KV) SetBalance(a string, b *big.Int) { m.acct(a).Balance = new(big.Int).Set(b) }
func (m *KV) SetNonce(a string, n uint64)     { m.acct(a).Nonce = n }
func (m *KV) SetCode(a string, c []byte)      { m.acct(a).Code = cp(c) }

func (m *KV) Snapshot() int {
	s := kvSnap{accts: map[string]*KVAcct{}, unknown: map[string]bool{}}
	for k, v := range m.Accts {
		s.accts[k] = v.clone()
	}
	for k := range m.Unknown {
		s.unknown[k] = true
	}
	m.snaps = append(m.snaps, s)
	m.added = append(m.added, map[string]bool{})
	return len(m.snaps) - 1
}

// Revert goes back to snapshot idx (and drops it and all later ones).
func (m *KV) Revert(idx int) {
	s := m.snaps[idx]
	// keys written non-journaled since that snapshot become unknown
	addedSince := m.added[idx+1]
	m.Accts = s.accts
	m.Unknown = s.unknown
	for k := range addedSince {
		m.Unknown[k] = true
	}
	m.snaps = m.snaps[:idx]
	m.added = m.added[:idx+1]
	for k := range addedSince { // still "added" relative to older snapshots
		for _, a := range m.added {
			a[k] = true
		}
	}
}

// EndTx forgets all snapshots (the executor finalises after every transaction).
func (m *KV) EndTx() {
	m.snaps = nil
	m.added = []map[string]bool{{}}
}

func (m *KV) Depth() int { return len(m.snaps) }

// Query returns the sorted values of live keys of account a with the prefix, and whether any
// key with that prefix is unknown (then the query is not checked).
func (m *KV) Query(a, prefix string) (vals [][]byte, determinate bool) {
	determinate = true
	for uk := range m.Unknown {
		if len(uk) >= len(a)+1+len(prefix) && uk[:len(a)+1+len(prefix)] == a+"|"+prefix {
			determinate = false
		}
	}
	for k, v := range m.acct(a).State {
		if len(k) >= len(prefix) && k[:len(prefix)] == prefix {
			if m.Unknown[sk(a, k)] {
				determinate = false
				continue
			}
			if v != nil {
				vals = append(vals, v)
			}
		}
	}
	sort.Slice(vals, func(i, j int) bool { return bytes.Compare(vals[i], vals[j]) < 0 })
	return
}

// Clone deep-copies the current (snapshot-free) state; used to record per-height states.
func (m *KV) Clone() *KV {
	c := NewKV()
	for k, v := range m.Accts {
		c.Accts[k] = v.clone()
	}
	for k := range m.Unknown {
		c.Unknown[k] = true
	}
	return c
}
