package model

// Declared governance state machines of appchains, services, rules, roles and nodes, transcribed
// from the setFSM tables the property refers to (DESIGN.md appendix B). "last" (the status before
// the operation was submitted) is expanded to every status the submitting event is allowed from.

type lcEdges map[string][]string

func expand(m lcEdges, from string, tos ...string) { m[from] = append(m[from], tos...) }

var Lifecycle = map[string]lcEdges{}

const LcNone = "<none>"

func init() {
	// ---- appchain
	a := lcEdges{}
	expand(a, LcNone, "available")                                                                   // registration approved
	expand(a, "available", "updating", "freezing", "logouting", "frozen")                            // update, freeze, logout, pause
	expand(a, "frozen", "updating", "activating", "logouting", "available")                          // update, activate, logout, unpause
	expand(a, "logouting", "updating", "freezing", "activating", "forbidden", "available", "frozen") // (declared) + approve + reject->last
	expand(a, "updating", "available", "frozen", "logouting")                                        // approve, reject, logout
	expand(a, "freezing", "frozen", "available", "logouting")                                        // approve, reject->last, logout
	expand(a, "activating", "available", "frozen", "logouting")                                      // approve, reject->last, logout
	Lifecycle["appchain"] = a
	// ---- service
	s := lcEdges{}
	expand(s, LcNone, "registering", "available", "unavailable")
	expand(s, "unavailable", "registering")
	expand(s, "registering", "available", "unavailable", LcNone, "pause")
	expand(s, "available", "updating", "freezing", "logouting", "pause")
	expand(s, "frozen", "updating", "activating", "logouting", "pause")
	expand(s, "updating", "available", "frozen", "logouting", "pause")
	expand(s, "freezing", "frozen", "available", "logouting", "pause")
	expand(s, "activating", "available", "frozen", "logouting", "pause")
	expand(s, "pause", "available", "logouting", "forbidden")
	expand(s, "logouting", "forbidden", "available", "updating", "freezing", "frozen", "activating", "pause")
	Lifecycle["service"] = s
	// ---- role
	r := lcEdges{}
	expand(r, LcNone, "registering", "available", "unavailable")
	expand(r, "unavailable", "registering")
	expand(r, "registering", "available", "unavailable", LcNone)
	expand(r, "available", "freezing", "logouting", "frozen")
	expand(r, "freezing", "frozen", "available", "activating", "logouting")
	expand(r, "frozen", "activating", "logouting", "binding")
	expand(r, "activating", "available", "frozen", "freezing", "logouting")
	expand(r, "binding", "available", "frozen", "logouting")
	expand(r, "logouting", "forbidden", "available", "freezing", "frozen", "activating", "binding")
	Lifecycle["role"] = r
	// ---- node
	n := lcEdges{}
	expand(n, LcNone, "registering", "available", "unavailable")
	expand(n, "unavailable", "registering")
	expand(n, "registering", "available", "unavailable", LcNone)
	expand(n, "available", "updating", "binding", "logouting")
	expand(n, "updating", "available", "binded", "logouting")
	expand(n, "binding", "binded", "available", "logouting")
	expand(n, "binded", "updating", "available", "logouting")
	expand(n, "logouting", "forbidden", "available", "binding", "binded", "updating")
	Lifecycle["node"] = n
	// ---- rule
	ru := lcEdges{}
	expand(ru, LcNone, "bindable", "available")
	expand(ru, "bindable", "available", "binding", "forbidden", "unavailable")
	expand(ru, "binding", "available", "bindable", "unavailable")
	expand(ru, "available", "unbinding", "unavailable")
	expand(ru, "unbinding", "bindable", "available", "unavailable")
	expand(ru, "forbidden", "unavailable")
	Lifecycle["rule"] = ru
}

// LcPath reports whether from->to is a path of at most n declared edges (one transaction may
// submit an operation and conclude it at once).
func LcPath(class, from, to string, n int) bool {
	if from == to {
		return true
	}
	frontier := map[string]bool{from: true}
	for i := 0; i < n; i++ {
		nf := map[string]bool{}
		for f := range frontier {
			for _, t := range Lifecycle[class][f] {
				if t == to {
					return true
				}
				nf[t] = true
			}
		}
		frontier = nf
	}
	return false
}

// Gate classifies a governance status for interchain gating: "pass", "block", or "ambiguous"
// (transitional statuses about which the statement is silent).
func Gate(status string) string {
	switch status {
	case "available":
		return "pass"
	case "updating", "freezing", "activating", "logouting":
		return "ambiguous"
	}
	return "block"
}

// Absorbing statuses: a logged-out object never becomes usable again.
func LcAbsorbing(class, status string) bool {
	return status == "forbidden" && class != "rule"
}
