// Package model holds the reference models / oracles. It must not import the code under test.
package model

import (
	"fmt"
	"sort"
)

// PoolTx is the model's view of a transaction: only identity matters.
type PoolTx struct {
	Account string
	Nonce   uint64
	Hash    string
}

type poolAcct struct {
	commit uint64                     // committed nonce known to the pool
	next   uint64                     // next nonce that may be handed to consensus
	held   map[uint64]string          // nonce -> hash of the tx currently held for that nonce (>= commit)
	given  map[uint64]map[string]bool // every hash ever admitted for (account, nonce)
}

// Pool is the sequential specification of the transaction pool, written from C18/C19.
type Pool struct {
	BatchSize uint64
	accts     map[string]*poolAcct
	byHash    map[string]*PoolTx // admitted, not yet known committed
	status    map[string]string  // hash -> held | superseded | evicted | committed
	lastSeq   uint64
	seqKnown  bool
	Ledger    func(account string) uint64
}

func NewPool(batchSize uint64, startSeq uint64, ledger func(string) uint64) *Pool {
	return &Pool{BatchSize: batchSize, accts: map[string]*poolAcct{}, byHash: map[string]*PoolTx{}, status: map[string]string{},
		lastSeq: startSeq, seqKnown: true, Ledger: ledger}
}

func (p *Pool) acct(a string) *poolAcct {
	ac := p.accts[a]
	if ac == nil {
		c := p.Ledger(a)
		ac = &poolAcct{commit: c, next: c, held: map[uint64]string{}, given: map[uint64]map[string]bool{}}
		p.accts[a] = ac
	}
	return ac
}

// Pending is the next nonce of the account that would become ready: the smallest nonce >= commit
// that is not held.
func (p *Pool) Pending(a string) uint64 {
	ac := p.acct(a)
	n := ac.commit
	for {
		if _, ok := ac.held[n]; !ok {
			return n
		}
		n++
	}
}

func (p *Pool) Commit(a string) uint64 { return p.acct(a).commit }

// Given records every transaction handed to the pool (admitted or not): the pool may only ever
// batch, for (account, nonce), a transaction it was given for that account and nonce.
func (p *Pool) Given(txs []PoolTx) {
	for _, tx := range txs {
		ac := p.acct(tx.Account)
		if ac.given[tx.Nonce] == nil {
			ac.given[tx.Nonce] = map[string]bool{}
		}
		ac.given[tx.Nonce][tx.Hash] = true
	}
}

// Admit applies one ProcessTransactions call. It returns the hashes the specification considers
// admitted by this call.
func (p *Pool) Admit(txs []PoolTx) []string {
	var admitted []string
	seenPtr := map[string]bool{}
	pend := map[string]uint64{}
	for _, tx := range txs {
		if _, ok := pend[tx.Account]; !ok {
			pend[tx.Account] = p.Pending(tx.Account)
		}
	}
	for _, tx := range txs {
		ac := p.acct(tx.Account)
		if tx.Nonce < pend[tx.Account] {
			continue // stale or already ready: refused
		}
		key := fmt.Sprintf("%s/%d", tx.Account, tx.Nonce)
		if seenPtr[key] {
			continue
		}
		seenPtr[key] = true
		if st := p.status[tx.Hash]; st == "held" || st == "superseded" {
			continue // the pool still knows this hash
		}
		if old, ok := ac.held[tx.Nonce]; ok && old != tx.Hash {
			p.status[old] = "superseded"
		}
		ac.held[tx.Nonce] = tx.Hash
		t := tx
		p.byHash[tx.Hash] = &t
		p.status[tx.Hash] = "held"
		admitted = append(admitted, tx.Hash)
	}
	return admitted
}

// CheckBatch checks a batch returned by the pool against C18 and advances the model.
// It returns violation (signature, detail) pairs.
func (p *Pool) CheckBatch(height uint64, txs []PoolTx, resetSeq bool) [][2]string {
	var v [][2]string
	if uint64(len(txs)) > p.BatchSize {
		v = append(v, [2]string{"batch:oversize", fmt.Sprintf("batch of %d txs exceeds batch size %d", len(txs), p.BatchSize)})
	}
	if p.seqKnown && !resetSeq && height != p.lastSeq+1 {
		v = append(v, [2]string{"batch:seqno", fmt.Sprintf("batch height %d, previous %d", height, p.lastSeq)})
	}
	p.lastSeq = height
	p.seqKnown = true
	for _, tx := range txs {
		ac := p.acct(tx.Account)
		switch {
		case tx.Nonce < ac.commit:
			v = append(v, [2]string{"batch:below-commit", fmt.Sprintf("%s nonce %d batched, committed nonce is %d", tx.Account, tx.Nonce, ac.commit)})
		case tx.Nonce < ac.next:
			v = append(v, [2]string{"batch:repeat", fmt.Sprintf("%s nonce %d batched again before commit (next expected %d)", tx.Account, tx.Nonce, ac.next)})
		case tx.Nonce > ac.next:
			v = append(v, [2]string{"batch:gap", fmt.Sprintf("%s nonce %d batched, but %d was never handed out", tx.Account, tx.Nonce, ac.next)})
		}
		if !ac.given[tx.Nonce][tx.Hash] {
			v = append(v, [2]string{"batch:unknown-tx", fmt.Sprintf("%s nonce %d: batched tx %s was never given to the pool for that account and nonce", tx.Account, tx.Nonce, tx.Hash)})
		}
		if tx.Nonce >= ac.next {
			ac.next = tx.Nonce + 1
		}
	}
	return v
}

func (p *Pool) SetSeq(s uint64) { p.lastSeq = s; p.seqKnown = true }

// CommitHashes applies a commit notification. Hashes unknown to the pool are ignored (the pool
// cannot know their account).
func (p *Pool) CommitHashes(hashes []string) {
	for _, h := range hashes {
		tx := p.byHash[h]
		if tx == nil {
			continue
		}
		ac := p.acct(tx.Account)
		if tx.Nonce+1 > ac.commit {
			ac.commit = tx.Nonce + 1
		}
	}
	for _, ac := range p.accts {
		if ac.next < ac.commit {
			ac.next = ac.commit
		}
		for n, h := range ac.held {
			if n < ac.commit {
				p.status[h] = "committed"
				delete(ac.held, n)
				delete(p.byHash, h)
			}
		}
	}
}

// CommitForeign applies a block produced elsewhere whose transactions this pool was never given:
// the ledger's nonce of the account is now n. Whatever the pool holds below n lost its slot.
func (p *Pool) CommitForeign(a string, n uint64) {
	ac := p.acct(a)
	if n > ac.commit {
		ac.commit = n
	}
	if ac.next < ac.commit {
		ac.next = ac.commit
	}
	for nn, h := range ac.held {
		if nn < ac.commit {
			p.status[h] = "superseded"
			delete(ac.held, nn)
			delete(p.byHash, h)
		}
	}
}

// MarkBatched applies a block minted elsewhere that contains the next ready transactions of an
// account: from now on they count as handed to consensus.
func (p *Pool) MarkBatched(txs []PoolTx) {
	for _, tx := range txs {
		ac := p.acct(tx.Account)
		if tx.Nonce >= ac.next {
			ac.next = tx.Nonce + 1
		}
	}
}

// Next is the next nonce of the account that may be handed to consensus.
func (p *Pool) Next(a string) uint64 { return p.acct(a).next }

// Held lists txs the specification says must still be retrievable.
func (p *Pool) Held() []PoolTx {
	var out []PoolTx
	for a, ac := range p.accts {
		for n, h := range ac.held {
			out = append(out, PoolTx{Account: a, Nonce: n, Hash: h})
		}
	}
	sort.Slice(out, func(i, j int) bool {
		if out[i].Account != out[j].Account {
			return out[i].Account < out[j].Account
		}
		return out[i].Nonce < out[j].Nonce
	})
	return out
}

// IsReady: all lower nonces from the committed nonce are present.
func (p *Pool) IsReady(tx PoolTx) bool { return tx.Nonce < p.Pending(tx.Account) }

// IsBatched: handed to consensus and not yet committed.
func (p *Pool) IsBatched(tx PoolTx) bool { ac := p.acct(tx.Account); return tx.Nonce < ac.next }

// Evict records that a non-ready, non-batched tx was dropped by the age rule.
func (p *Pool) Evict(tx PoolTx) {
	ac := p.acct(tx.Account)
	if ac.held[tx.Nonce] == tx.Hash {
		delete(ac.held, tx.Nonce)
	}
	p.status[tx.Hash] = "evicted"
	delete(p.byHash, tx.Hash)
}

// ReadyUnbatched counts ready transactions not yet handed to consensus.
func (p *Pool) ReadyUnbatched() int {
	n := 0
	for a, ac := range p.accts {
		pend := p.Pending(a)
		if pend > ac.next {
			n += int(pend - ac.next)
		}
	}
	return n
}

func (p *Pool) Accounts() []string {
	var out []string
	for a := range p.accts {
		out = append(out, a)
	}
	sort.Strings(out)
	return out
}

func (p *Pool) Status(hash string) string { return p.status[hash] }
