// Package vlog is the worker-side event log: one JSON line per record, flushed immediately, so
// that the parent knows exactly which case/step a dead worker was in.
package vlog

import (
	"encoding/json"
	"fmt"
	"math/rand"
	"os"
	"sort"
	"sync"
)

type Rec struct {
	K       string              `json:"k"` // case | step | viol | done | end | inconclusive
	Case    int                 `json:"case,omitempty"`
	Desc    interface{}         `json:"desc,omitempty"`
	Sig     string              `json:"sig,omitempty"`
	Detail  string              `json:"detail,omitempty"`
	Witness interface{}         `json:"witness,omitempty"`
	Shape   string              `json:"shape,omitempty"`
	NonTriv bool                `json:"nontrivial,omitempty"`
	Stats   map[string]int64    `json:"stats,omitempty"`
	Sets    map[string][]string `json:"sets,omitempty"`
	Samples []interface{}       `json:"samples,omitempty"`
}

type W struct {
	mu      sync.Mutex
	f       *os.File
	cur     int
	stats   map[string]int64
	sets    map[string]map[string]bool
	samples []interface{}
	nviol   int
}

func Open(path string) *W {
	f, err := os.OpenFile(path, os.O_CREATE|os.O_WRONLY|os.O_APPEND, 0644)
	if err != nil {
		fmt.Fprintln(os.Stderr, "vlog:", err)
		os.Exit(3)
	}
	return &W{f: f, stats: map[string]int64{}, sets: map[string]map[string]bool{}}
}

func (w *W) emit(r *Rec) {
	b, err := json.Marshal(r)
	if err != nil {
		b, _ = json.Marshal(&Rec{K: r.K, Case: r.Case, Sig: r.Sig, Detail: "unmarshalable record: " + err.Error()})
	}
	w.f.Write(append(b, '\n'))
}

func (w *W) CaseStart(id int, desc interface{}) {
	w.mu.Lock()
	defer w.mu.Unlock()
	w.cur = id
	w.emit(&Rec{K: "case", Case: id, Desc: desc})
}

// Step records what the worker is about to do (kept short); survives a crash.
func (w *W) Step(desc string) {
	w.mu.Lock()
	defer w.mu.Unlock()
	w.emit(&Rec{K: "step", Case: w.cur, Detail: desc})
}

func (w *W) Violation(sig, detail string, witness interface{}) {
	w.mu.Lock()
	defer w.mu.Unlock()
	w.nviol++
	if w.nviol > 200 {
		return
	}
	if len(detail) > 4000 {
		detail = detail[:4000] + "…"
	}
	w.emit(&Rec{K: "viol", Case: w.cur, Sig: sig, Detail: detail, Witness: witness})
}

func (w *W) Inconclusive(detail string) {
	w.mu.Lock()
	defer w.mu.Unlock()
	w.emit(&Rec{K: "inconclusive", Case: w.cur, Detail: detail})
}

func (w *W) CaseDone(shape string, nontrivial bool) {
	w.mu.Lock()
	defer w.mu.Unlock()
	w.emit(&Rec{K: "done", Case: w.cur, Shape: shape, NonTriv: nontrivial})
}

func (w *W) Count(key string, n int64) {
	w.mu.Lock()
	w.stats[key] += n
	w.mu.Unlock()
}

func (w *W) SetAdd(key, val string) {
	w.mu.Lock()
	m := w.sets[key]
	if m == nil {
		m = map[string]bool{}
		w.sets[key] = m
	}
	if len(m) < 2000 {
		m[val] = true
	}
	w.mu.Unlock()
}

// Sample keeps a few literal cases for the evidence file.
func (w *W) Sample(v interface{}) {
	w.mu.Lock()
	if len(w.samples) < 3 {
		w.samples = append(w.samples, v)
	}
	w.mu.Unlock()
}

func (w *W) End() {
	w.mu.Lock()
	defer w.mu.Unlock()
	sets := map[string][]string{}
	for k, m := range w.sets {
		for v := range m {
			sets[k] = append(sets[k], v)
		}
		sort.Strings(sets[k])
	}
	w.emit(&Rec{K: "end", Stats: w.stats, Sets: sets, Samples: w.samples})
	w.f.Sync()
	w.f.Close()
}

// CaseRand returns the PRNG of one case: a pure function of (seed, property, case id).
func CaseRand(seed int64, prop string, id int) *rand.Rand {
	h := uint64(seed)*0x9E3779B97F4A7C15 + 0x1234567
	for _, c := range []byte(prop) {
		h = (h ^ uint64(c)) * 0x100000001B3
	}
	h = (h ^ uint64(id+1)) * 0xff51afd7ed558ccd
	h ^= h >> 33
	return rand.New(rand.NewSource(int64(h & 0x7fffffffffffffff)))
}
