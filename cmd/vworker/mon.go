package main

import (
	"bytes"
	"crypto/ecdsa"
	"encoding/base64"
	"encoding/json"
	"flag"
	"fmt"
	ethkittypes "github.com/meshplus/eth-kit/types"
	"math/big"
	"math/rand"
	"os"
	"os/exec"
	"path/filepath"
	"sort"
	"strings"
	"sync/atomic"

	"github.com/meshplus/bitxhub-kit/types"
	"github.com/meshplus/bitxhub-model/pb"
	"github.com/meshplus/bitxhub/verif/harness"
	"github.com/meshplus/bitxhub/verif/vlog"
	ledger2 "github.com/meshplus/eth-kit/ledger"
)

func init() {
	workloads["mon09"] = func(a []string) int { return chainWorkload("C09", a) }
	workloads["mon14"] = mon14Workload
	workloads["mon07"] = mon07Workload
	workloads["c12-rollback"] = c12Rollback
}

// ------------------------------------------------------------------------------------------
// shared helpers

// balances reads every account record of the state store.
func balances(r *harness.Replica) map[string]*big.Int {
	out := map[string]*big.Int{}
	for k, v := range r.DumpState() {
		if strings.HasPrefix(k, "account-") {
			ia := &ledger2.InnerAccount{Balance: big.NewInt(0)}
			if err := ia.Unmarshal(v); err == nil && ia.Balance != nil {
				out[k[len("account-"):]] = ia.Balance
			}
		}
	}
	return out
}

func sumBal(m map[string]*big.Int) *big.Int {
	s := new(big.Int)
	for _, v := range m {
		s.Add(s, v)
	}
	return s
}

func newCaseWorld(work string, id int, opts harness.Options, tag string) (*harness.World, string, error) {
	dir := filepath.Join(work, fmt.Sprintf("%s-%d", tag, id))
	os.RemoveAll(dir)
	w, err := harness.OpenWorld(dir, opts)
	if err != nil {
		return nil, dir, err
	}
	if err := w.BuildExtended(); err != nil {
		return nil, dir, fmt.Errorf("fixture: %v", err)
	}
	return w, dir, nil
}

func newCaseWorldStd(work string, id int, opts harness.Options, tag string) (*harness.World, string, error) {
	dir := filepath.Join(work, fmt.Sprintf("%s-%d", tag, id))
	os.RemoveAll(dir)
	w, err := harness.OpenWorld(dir, opts)
	if err != nil {
		return nil, dir, err
	}
	if err := w.BuildStandard(); err != nil {
		return nil, dir, fmt.Errorf("fixture: %v", err)
	}
	return w, dir, nil
}

func absorbDeploys(g *mixGen, txs []pb.Transaction, res *harness.BlockResult) {
	for i, tx := range txs {
		if bt, ok := tx.(*pb.BxhTransaction); ok && bt.To != nil && bt.To.String() == (&types.Address{}).String() && i < len(res.Receipts) && res.Receipts[i].Status == pb.Receipt_SUCCESS && len(res.Receipts[i].Ret) == 20 {
			g.ruleAddr = append(g.ruleAddr, types.NewAddress(res.Receipts[i].Ret).String())
		}
	}
}

// ------------------------------------------------------------------------------------------
// C09 (and the executor-level clause of C12): stored chain audit, rollback, re-execution

type recBlock struct {
	txs  []pb.Transaction
	ts   int64
	hash string
	dump map[string][]byte // state store right after the block (first execution)
	info string
}

func chainWorkload(prop string, args []string) int {
	a := parseArgs("mon09", args, nil)
	w := vlog.Open(a.Out)
	for id := a.From; id < a.To; id++ {
		if prop == "C09" && id%4 == 3 {
			// every fourth C09 case drives the ledger's own interface with synthetic blocks
			ledger09Case(w, a, id)
			continue
		}
		chainCase(prop, w, a, id)
	}
	w.End()
	return 0
}

// c12Rollback: child process that opens a replica and rolls its ledger back (to be killed by a hook on the way).
func c12Rollback(args []string) int {
	fs := flag.NewFlagSet("c12-rollback", flag.ExitOnError)
	dir := fs.String("dir", "", "")
	optsJSON := fs.String("opts", "{}", "")
	to := fs.Uint64("to", 0, "")
	fs.Parse(args)
	var opts harness.Options
	json.Unmarshal([]byte(*optsJSON), &opts)
	opts.ReaderMon = false
	r, err := harness.Open(*dir, opts)
	if err != nil {
		fmt.Println("open:", err)
		return 4
	}
	if err := r.L.Rollback(*to); err != nil {
		fmt.Println("rollback:", err)
		return 5
	}
	r.Close()
	return 0
}

func chainCase(prop string, w *vlog.W, a *wargs, id int) {
	rng := vlog.CaseRand(a.Seed, "chain", id)
	opts := harness.Options{NoAudit: rng.Intn(2) == 0, ReaderMon: prop == "C09"}
	w.CaseStart(id, map[string]interface{}{"opts": opts, "kind": "chain-audit"})
	guard(w, "chain", func() {
		world, dir, err := newCaseWorld(a.Work, id, opts, "chain")
		defer os.RemoveAll(dir)
		if err != nil {
			w.Inconclusive(err.Error())
			w.CaseDone("fixture-error", false)
			return
		}
		seen := map[string]bool{}
		viol := func(p, sig, detail string) {
			if p != prop {
				w.Count("other_property_observations:"+p, 1)
				return
			}
			if seen[sig] {
				return
			}
			seen[sig] = true
			w.Violation(sig, detail, map[string]interface{}{"opts": opts})
		}
		recs := map[uint64]*harness.ExecRecord{}
		blocks := map[uint64]*recBlock{}
		record := func(txs []pb.Transaction, ts int64, res *harness.BlockResult) {
			er := &harness.ExecRecord{Height: res.Height, Hash: res.Block.BlockHash.String()}
			for _, tx := range txs {
				er.TxHashes = append(er.TxHashes, tx.GetHash().String())
			}
			recs[res.Height] = er
			rb := &recBlock{txs: txs, ts: ts, hash: er.Hash, dump: world.R.DumpState()}
			bh := res.Block.BlockHeader
			rb.info = fmt.Sprintf("state=%s txroot=%s rcroot=%s", bh.StateRoot, bh.TxRoot, bh.ReceiptRoot)
			if old := blocks[res.Height]; old != nil && old.hash == er.Hash {
				rb = old // keep the first execution's record
			}
			blocks[res.Height] = rb
			for hh := range blocks {
				if hh+12 < res.Height {
					blocks[hh].dump = nil
				}
			}
		}
		world.Rec = nil
		audit := func(ctx string) {
			// what a reader concurrent with execution and persist saw since the last audit
			w.Count("obs_concurrent_reader_polls", atomic.SwapInt64(&world.R.ReaderPolls, 0))
			for _, f := range world.R.ReaderFindings {
				viol("C09", f.Sig, ctx+": "+f.Detail)
			}
			world.R.ReaderFindings = nil
			fs, nb, nl := world.R.AuditChain(recs)
			w.Count("audited_blocks", int64(nb))
			w.Count("audited_lookups", int64(nl))
			for _, f := range fs {
				viol("C09", f.Sig, ctx+": "+f.Detail)
			}
		}
		shape := map[string]bool{}
		g := newMixGen(world, rng)
		execGen := func(n int) bool {
			for b := 0; b < n; b++ {
				h := world.R.Height() + 1
				var txs []pb.Transaction
				switch rng.Intn(12) {
				case 0: // empty block
					shape["empty-block"] = true
				case 1: // many transactions, the same payload from different senders
					k := 60 + rng.Intn(140)
					for i := 0; i < k; i++ {
						txs = append(txs, world.Transfer(harness.User(i%4), harness.User(0).Addr, "1"))
					}
					shape["big-block"] = true
				default:
					txs = g.genBlock(h)
				}
				txs = harness.WireRoundTrip(txs)
				world.TS += 1000
				w.Step(fmt.Sprintf("block %d (%d txs)", h, len(txs)))
				res, err := world.R.ExecBlock(txs, world.TS, nil)
				if err != nil {
					viol(prop, "exec:error", fmt.Sprintf("block %d: %v", h, err))
					return false
				}
				record(txs, world.TS, res)
				g.absorb(txs, res)
				absorbDeploys(g, txs, res)
				w.Count("blocks", 1)
			}
			return true
		}
		if !execGen(12 + rng.Intn(8)) {
			return
		}
		audit("after first segment")
		if out := os.Getenv("VERIF_HIST_OUT"); out != "" { // debugging aid: dump the executed history for det01-replay
			hist := &history{Opts: opts}
			for h := uint64(2); h <= world.R.Height(); h++ {
				blk, err := world.R.L.GetBlock(h, true)
				if err != nil {
					break
				}
				raw, _ := blk.Transactions.Marshal()
				hist.Blocks = append(hist.Blocks, histBlock{TS: blk.BlockHeader.Timestamp, Txs: base64.StdEncoding.EncodeToString(raw), N: len(blk.Transactions.Transactions)})
			}
			hb, _ := json.Marshal(hist)
			os.WriteFile(out, hb, 0644)
		}
		// ---- rollback, audit, re-execute the same blocks, then a different continuation
		var maxEver uint64
		for round := 0; round < 3; round++ {
			head := world.R.Height()
			if head > maxEver {
				maxEver = head
			}
			t := head - 1 - uint64(rng.Intn(7))
			// the journal window hangs on the highest height ever committed, not on the current head: after a
			// rollback and a shorter continuation a target below maxEver-9 is (rightly) refused
			if maxEver > 9 && t < maxEver-9 {
				t = maxEver - 9
				shape["target-clamped-to-window"] = true
			}
			if t >= head {
				break
			}
			var removed []harness.Removed
			for h := t + 1; h <= head; h++ {
				rb := blocks[h]
				rm := harness.Removed{Height: h, BlockHash: types.NewHashByStr(rb.hash)}
				for _, tx := range rb.txs {
					rm.TxHashes = append(rm.TxHashes, tx.GetHash())
				}
				removed = append(removed, rm)
			}
			viaExecutor := rng.Intn(2) == 0
			still := map[string]bool{}
			if viaExecutor {
				// the executor's own path: a block numbered t+1 whose hash differs from the stored one
				shape["rollback-via-executor"] = true
				rb := blocks[t+1]
				w.Step(fmt.Sprintf("feed block %d again while at height %d", t+1, head))
				res, err := world.R.ExecBlockAt(t+1, rb.txs, rb.ts, nil)
				if err != nil {
					viol(prop, "rollback:executor-path-error", fmt.Sprintf("feeding block %d again at height %d: %v", t+1, head, err))
					return
				}
				if res.Block.BlockHash.String() != rb.hash {
					viol("C12", "reexec:hash-differs", fmt.Sprintf("block %d re-executed through the executor's rollback path (head was %d) has hash %s, originally %s", t+1, head, res.Block.BlockHash, rb.hash))
				}
				for hh := t + 2; hh <= head; hh++ {
					delete(recs, hh)
				}
				still[rb.hash] = true
				for _, tx := range rb.txs {
					still[tx.GetHash().String()] = true
				}
				w.Count("reexecuted_blocks", 1)
				t = t + 1
			} else {
				shape["rollback-direct"] = true
				if prop == "C12" && head-t >= 2 && rng.Intn(2) == 0 {
					// the node dies in the middle of the rollback (a separate process does it and is killed after the n-th
					// block has been undone in the state store), is restarted, and is asked for the same rollback again:
					// what must come out is the state of height t all the same
					n := 1 + rng.Intn(int(head-t)-1)
					world.R.Close()
					ob, _ := json.Marshal(opts)
					self := os.Getenv("VERIF_SELF")
					if self == "" {
						self, _ = os.Executable()
					}
					cmd := exec.Command(self, "c12-rollback", "-dir", dir, "-opts", string(ob), "-to", fmt.Sprint(t))
					cmd.Env = append(os.Environ(), fmt.Sprintf("VERIF_HOOKS=state.rollback.after_block=kill:%d", n))
					out, cerr := cmd.CombinedOutput()
					if cerr == nil {
						w.Count("rollback_kill_hook_not_reached", 1)
					} else if !strings.Contains(cerr.Error(), "killed") {
						viol(prop, "rollback:child-error", fmt.Sprintf("Rollback(%d) at height %d in a child process: %v %s", t, head, cerr, tail(string(out), 300)))
						return
					} else {
						w.Count("rollbacks_interrupted_by_a_kill", 1)
						shape["rollback-interrupted-by-kill"] = true
					}
					r2, err := harness.Open(dir, opts)
					if err != nil {
						viol(prop, "rollback:reopen-error-after-kill", fmt.Sprintf("node killed after %d of %d blocks of Rollback(%d) had been undone in the state store does not open again: %v", n, head-t, t, err))
						return
					}
					world.R = r2
					if x := world.R.Height(); x < t || x > head {
						viol(prop, "rollback:height-after-kill", fmt.Sprintf("node killed during Rollback(%d) at height %d opens at height %d", t, head, x))
						return
					}
					w.SetAdd("heights_after_interrupted_rollback", fmt.Sprintf("head-%d", head-world.R.Height()))
				}
				w.Step(fmt.Sprintf("Ledger.Rollback(%d) at height %d", t, head))
				if err := world.R.L.Rollback(t); err != nil {
					viol(prop, "rollback:error", fmt.Sprintf("Rollback(%d) at height %d: %v", t, head, err))
					return
				}
				for hh := t + 1; hh <= head; hh++ {
					delete(recs, hh)
				}
				world.R.Close()
				r2, err := harness.Open(dir, opts)
				if err != nil {
					viol(prop, "rollback:reopen-error", err.Error())
					return
				}
				world.R = r2
			}
			w.Count("rollbacks", 1)
			if world.R.Height() != t {
				viol("C09", "meta:height-after-rollback", fmt.Sprintf("after rollback to %d the chain meta reports height %d", t, world.R.Height()))
			}
			if rb := blocks[t]; rb != nil && rb.dump != nil && !viaExecutor {
				w.Count("obs_rollback_state_compares", 1)
				if d := diffDumps(rb.dump, world.R.DumpState(), func(k string, x, y []byte) bool { return strings.HasPrefix(k, "journal-") }); len(d) > 0 {
					viol("C12", "rollback:state-differs", fmt.Sprintf("after Rollback(%d) from height %d the state store differs from the one recorded when block %d was committed; keys: %v", t, head, t, d))
				}
			}
			fs, nl := world.R.AuditRemoved(removed, still)
			w.Count("stale_lookups_checked", int64(nl))
			for _, f := range fs {
				viol("C09", f.Sig, f.Detail)
			}
			audit(fmt.Sprintf("after rollback to %d", t))
			// re-execute the recorded blocks t+1.. (same txs): same hashes
			reexec := rng.Intn(3) != 0
			if reexec {
				for h := t + 1; h <= head; h++ {
					rb := blocks[h]
					res, err := world.R.ExecBlock(rb.txs, rb.ts, nil)
					if err != nil {
						viol(prop, "exec:error", fmt.Sprintf("re-executing block %d: %v", h, err))
						return
					}
					w.Count("reexecuted_blocks", 1)
					if res.Block.BlockHash.String() != rb.hash {
						bh := res.Block.BlockHeader
						now := fmt.Sprintf("state=%s txroot=%s rcroot=%s", bh.StateRoot, bh.TxRoot, bh.ReceiptRoot)
						var d []string
						if rb.dump != nil {
							d = diffDumps(rb.dump, world.R.DumpState(), func(k string, x, y []byte) bool { return strings.HasPrefix(k, "journal-") })
						}
						var ds []string
						for i, tx := range rb.txs {
							ds = append(ds, fmt.Sprintf("%s=%v(%.120q)", describeTx(tx), res.Receipts[i].Status, string(res.Receipts[i].Ret)))
						}
						viol("C12", "reexec:hash-differs", fmt.Sprintf("block %d re-executed after rollback %d->%d has hash %s, originally %s\n  first:  %s\n  now:    %s\n  state keys differing after the block: %v\n  txs: %v", h, head, t, res.Block.BlockHash, rb.hash, rb.info, now, d, ds))
						break
					}
					record(rb.txs, rb.ts, res)
				}
				shape["reexec-same"] = true
				audit("after re-execution")
			} else {
				// a different continuation: fresh generator state, nonces re-read from the ledger
				world.N = harness.Nonces{}
				g = newMixGen(world, rng)
				shape["different-continuation"] = true
			}
			if !execGen(3 + rng.Intn(5)) {
				return
			}
			audit("after continuation")
		}
		// ---- a rollback beyond the journal window (or to a higher height) is refused and modifies nothing:
		// neither the state store nor the chain index, the block file or the chain meta
		if head := world.R.Height(); head > 13 {
			if head > maxEver {
				maxEver = head
			}
			targets := []uint64{head + 1 + uint64(rng.Intn(3))}
			if maxEver > 12 {
				targets = append(targets, maxEver-11-uint64(rng.Intn(2)))
			}
			for _, t := range targets {
				bs, bc, bm := world.R.DumpState(), world.R.DumpChain(), world.R.L.GetChainMeta()
				err := world.R.L.Rollback(t)
				w.Count("obs_refused_rollback_probes", 1)
				if err == nil {
					viol("C12", "rollback:not-refused", fmt.Sprintf("Ledger.Rollback(%d) at height %d (highest height ever %d) was accepted", t, head, maxEver))
					break
				}
				am := world.R.L.GetChainMeta()
				if d := diffDumps(bs, world.R.DumpState(), nil); len(d) > 0 {
					viol("C12", "rollback:refused-but-modified:state-store", fmt.Sprintf("refused Ledger.Rollback(%d) at height %d (%v) changed state keys %v", t, head, err, d))
				}
				if d := diffDumps(bc, world.R.DumpChain(), nil); len(d) > 0 || am.Height != bm.Height || am.BlockHash.String() != bm.BlockHash.String() {
					viol("C12", "rollback:refused-but-modified:chain", fmt.Sprintf("refused Ledger.Rollback(%d) at height %d (%v) changed the chain store (keys %v) / chain meta (height %d -> %d)", t, head, err, d, bm.Height, am.Height))
				}
				if b, err2 := world.R.L.GetBlock(head, true); err2 != nil || b == nil {
					viol("C12", "rollback:refused-but-modified:block-file", fmt.Sprintf("after the refused Ledger.Rollback(%d) the head block %d is unreadable: %v", t, head, err2))
				}
			}
			shape["refused-rollbacks"] = true
		}
		world.R.Close()
		var sh []string
		for k := range shape {
			sh = append(sh, k)
		}
		sort.Strings(sh)
		if id == a.From {
			w.Sample(map[string]interface{}{"case": id, "kinds": sh, "final_height": world.R.Height()})
		}
		w.CaseDone(fmt.Sprintf("audit%v|%s", !opts.NoAudit, strings.Join(sh, ",")), true)
	})
}

// ------------------------------------------------------------------------------------------
// C14: value conservation

func mon14Workload(args []string) int {
	a := parseArgs("mon14", args, nil)
	w := vlog.Open(a.Out)
	for id := a.From; id < a.To; id++ {
		rng := vlog.CaseRand(a.Seed, "mon14", id)
		nAdmins := 1 + rng.Intn(7)
		prices := []int64{50000, 50000, 1, 7, -1, 1000003}
		opts := harness.Options{NumAdmins: nAdmins, GasPrice: prices[rng.Intn(len(prices))]}
		w.CaseStart(id, map[string]interface{}{"opts": opts})
		guard(w, "mon14", func() {
			world, dir, err := newCaseWorld(a.Work, id, opts, "val")
			defer os.RemoveAll(dir)
			if err != nil {
				w.Inconclusive(err.Error())
				w.CaseDone("fixture-error", false)
				return
			}
			seen := map[string]bool{}
			viol := func(sig, detail string) {
				if seen[sig] {
					return
				}
				seen[sig] = true
				w.Violation(sig, detail, map[string]interface{}{"opts": opts})
			}
			genesisBal, _ := new(big.Int).SetString("100000000000000000000000000000000000", 10)
			admins := map[string]bool{}
			for i := 0; i < nAdmins; i++ {
				admins[harness.AdminKey(i).Addr.String()] = true
			}
			cands := []string{}
			for i := 0; i < 3; i++ {
				cands = append(cands, harness.DetKey(fmt.Sprintf("new-admin-%d", i)).Addr.String())
			}
			roleStatus := func(id string) string {
				rc := world.R.Query(harness.AddrRole, "GetRoleInfoById", pb.String(id))
				if rc.Status != pb.Receipt_SUCCESS {
					return ""
				}
				var r struct {
					Status string `json:"status"`
				}
				json.Unmarshal(rc.Ret, &r)
				return r.Status
			}
			price := opts.GasPrice
			if price < 0 {
				price = 0
			}
			g := newMixGen(world, rng)
			shape := map[string]bool{}
			nBlocks := 30
			// every sixth case (with a gas price): the approval that would conclude an admin's registration - and pay
			// the grant - is cast by an admin who cannot pay the fee for it: the vote is undone, grant included. The
			// candidate account exists beforehand.
			var script [][]pb.Transaction
			var scriptPid string
			if id%6 == 2 && price > 0 {
				cand := harness.DetKey("new-admin-0")
				adm0 := harness.AdminKey(0)
				poorAdm := harness.AdminKey(nAdmins/2 + 0)
				script = [][]pb.Transaction{
					{world.Transfer(harness.User(0), cand.Addr, "1")},
					{world.BVM(adm0, harness.AddrRole, "RegisterRole", pb.String(cand.Addr.String()), pb.String("governanceAdmin"), pb.String(""), pb.String("r"))},
					nil, // the first nAdmins/2 approvals (filled in when the proposal id is known)
					nil, // the admin who will cast the deciding vote gives its money away
					nil, // the deciding vote
				}
				_ = poorAdm
				shape["scripted:deciding-approval-cannot-pay"] = true
			}
			// every sixth case (two admins or more): the life of an audit admin - an nvp node is registered, an audit admin
			// bound to it is registered and approved (the one documented grant), a second node is registered, the first
			// node logs out (the admin is paused), the admin is bound to the second node and that is approved: an admin
			// who comes back is not "newly approved", nothing may be granted again
			var scriptF []func() []pb.Transaction
			var lastRes *harness.BlockResult
			if id%6 == 4 && nAdmins >= 2 && script == nil {
				cand := harness.DetKey("new-admin-1")
				adm0 := harness.AdminKey(0)
				node1, node2 := harness.DetKey("c14-node-1").Addr.String(), harness.DetKey("c14-node-2").Addr.String()
				approvals := func() []pb.Transaction {
					if lastRes == nil || len(lastRes.Receipts) == 0 || lastRes.Receipts[0].Status != pb.Receipt_SUCCESS {
						return nil
					}
					pid := harness.ProposalID(lastRes.Receipts[0])
					if pid == "" {
						return nil
					}
					var out []pb.Transaction
					for i := 1; i < nAdmins; i++ {
						out = append(out, world.BVM(harness.AdminKey(i), harness.AddrGov, "Vote", pb.String(pid), pb.String("approve"), pb.String("r")))
					}
					return out
				}
				one := func(tx pb.Transaction) func() []pb.Transaction {
					return func() []pb.Transaction { return []pb.Transaction{tx} }
				}
				regNode := func(n, name string) func() []pb.Transaction {
					return func() []pb.Transaction {
						return []pb.Transaction{world.BVM(adm0, harness.AddrNode, "RegisterNode", pb.String(n), pb.String("nvpNode"), pb.String(""), pb.Uint64(0), pb.String(name), pb.String(harness.ChainA), pb.String("r"))}
					}
				}
				scriptF = []func() []pb.Transaction{
					one(world.Transfer(harness.User(0), cand.Addr, "1")),
					regNode(node1, "c14-nvp-1"), approvals,
					func() []pb.Transaction {
						return []pb.Transaction{world.BVM(adm0, harness.AddrRole, "RegisterRole", pb.String(cand.Addr.String()), pb.String("auditAdmin"), pb.String(node1), pb.String("r"))}
					}, approvals,
					regNode(node2, "c14-nvp-2"), approvals,
					func() []pb.Transaction {
						return []pb.Transaction{world.BVM(adm0, harness.AddrNode, "LogoutNode", pb.String(node1), pb.String("r"))}
					}, approvals,
					func() []pb.Transaction {
						return []pb.Transaction{world.BVM(adm0, harness.AddrRole, "BindRole", pb.String(cand.Addr.String()), pb.String(node2), pb.String("r"))}
					}, approvals,
					func() []pb.Transaction {
						w.SetAdd("scripted_audit_admin_final_status", roleStatus(cand.Addr.String()))
						return nil
					},
				}
				shape["scripted:audit-admin-bound-again"] = true
			}
			for b := 0; b < nBlocks; b++ {
				pre := balances(world.R)
				preRole := map[string]string{}
				for _, c := range cands {
					preRole[c] = roleStatus(c)
				}
				h := world.R.Height() + 1
				var txs []pb.Transaction
				single := rng.Intn(2) == 0
				var sK *harness.Key
				var rAddr *types.Address
				amtStr := ""
				scripted := false
				if b < len(script) {
					poorAdm := harness.AdminKey(nAdmins / 2)
					switch b {
					case 2:
						for i := 0; i < nAdmins/2 && scriptPid != ""; i++ {
							script[b] = append(script[b], world.BVM(harness.AdminKey(i), harness.AddrGov, "Vote", pb.String(scriptPid), pb.String("approve"), pb.String("r")))
						}
					case 3:
						if bal := pre[poorAdm.Addr.String()]; bal != nil && scriptPid != "" {
							fee := new(big.Int).Mul(big.NewInt(21000), big.NewInt(price))
							if amt := new(big.Int).Sub(new(big.Int).Sub(bal, fee), big.NewInt(1000)); amt.Sign() > 0 {
								script[b] = []pb.Transaction{world.Transfer(poorAdm, harness.User(3).Addr, amt.String())}
							}
						}
					case 4:
						if scriptPid != "" {
							script[b] = []pb.Transaction{world.BVM(poorAdm, harness.AddrGov, "Vote", pb.String(scriptPid), pb.String("approve"), pb.String("r"))}
							w.Count("scripted_deciding_votes_by_admin_without_funds", 1)
						}
					}
					if len(script[b]) > 0 {
						txs, scripted, single = script[b], true, false
					}
				}
				if !scripted && b < len(scriptF) {
					if t := scriptF[b](); len(t) > 0 {
						txs, scripted, single = t, true, false
					}
				}
				if scripted {
				} else if single {
					// dedicated: one transfer with a hostile amount
					senders := []*harness.Key{harness.User(0), harness.User(1), harness.Pauper(), harness.DetKey("empty-account"), harness.AdminKey(0)}
					sK = senders[rng.Intn(len(senders))]
					recv := []*types.Address{harness.User(2).Addr, sK.Addr, harness.AdminKey(1).Addr, harness.AddrStore, harness.DetKey("fresh-receiver").Addr}
					rAddr = recv[rng.Intn(len(recv))]
					bal := pre[sK.Addr.String()]
					if bal == nil {
						bal = big.NewInt(0)
					}
					fee := new(big.Int).Mul(big.NewInt(21000), big.NewInt(price))
					am := []string{"0", "1", bal.String(), new(big.Int).Add(bal, big.NewInt(1)).String(), new(big.Int).Sub(bal, fee).String(),
						new(big.Int).Add(new(big.Int).Sub(bal, fee), big.NewInt(1)).String(), "1" + strings.Repeat("0", 40), "abc", "-5", "", "-1" + strings.Repeat("0", 30), "007", " 5",
						// not decimal numbers, but with a numeric prefix: nothing may move
						"25 ", "25abc", "2.5", "7e3", "1,000,000", "12\x00", "9_9", "+3x", "0x19", "5-", "1/2"}
					amtStr = am[rng.Intn(len(am))]
					txs = []pb.Transaction{world.Transfer(sK, rAddr, amtStr)}
					shape["single:"+classifyAmount(amtStr, bal, fee)] = true
				} else if rng.Intn(4) == 0 {
					// an earlier transaction of the block touches the receiver, then a sender not yet seen in the block
					// transfers an amount it can cover - but not together with the fee: the transfer is applied and
					// then undone, the receiver must not keep the amount
					sK = []*harness.Key{harness.User(0), harness.User(1)}[rng.Intn(2)]
					rAddr = []*types.Address{harness.User(3).Addr, harness.DetKey("fresh-receiver").Addr, harness.AddrStore}[rng.Intn(3)]
					bal := pre[sK.Addr.String()]
					if bal == nil {
						bal = big.NewInt(0)
					}
					fee := new(big.Int).Mul(big.NewInt(21000), big.NewInt(price))
					amt := new(big.Int).Sub(bal, new(big.Int).Div(fee, big.NewInt(int64(1+rng.Intn(3)))))
					if amt.Sign() > 0 {
						txs = []pb.Transaction{world.Transfer(harness.User(2), rAddr, "1"), world.Transfer(sK, rAddr, amt.String())}
						shape["pair:covers-amount-not-fee"] = true
						w.Count("tight_transfers_after_touch", 1)
					} else {
						txs = g.genBlock(h)
					}
					sK, rAddr = nil, nil
				} else {
					txs = g.genBlock(h)
				}
				txs = harness.WireRoundTrip(txs)
				world.TS += 1000
				w.Step(fmt.Sprintf("block %d (%d txs) single=%v amount=%q", h, len(txs), single, amtStr))
				res, err := world.R.ExecBlock(txs, world.TS, nil)
				if err != nil {
					viol("exec:error", err.Error())
					break
				}
				g.absorb(txs, res)
				absorbDeploys(g, txs, res)
				lastRes = res
				if scriptF != nil && scripted && b < len(scriptF) {
					w.SetAdd("scripted_audit_admin_steps", fmt.Sprintf("step %d: %v %.40s", b, res.Receipts[0].Status, string(res.Receipts[0].Ret)))
				}
				if script != nil && scripted && b == 1 && res.Receipts[0].Status == pb.Receipt_SUCCESS {
					scriptPid = harness.ProposalID(res.Receipts[0])
				}
				if script != nil && scripted && b == 4 {
					shape["scripted:deciding-vote:"+res.Receipts[0].Status.String()] = true
					w.SetAdd("scripted_deciding_vote_outcomes", fmt.Sprintf("%v %.60s", res.Receipts[0].Status, string(res.Receipts[0].Ret)))
				}
				w.Count("blocks", 1)
				w.Count("txs", int64(len(txs)))
				post := balances(world.R)
				// ---- no negative balances
				for addr, v := range post {
					if v.Sign() < 0 {
						viol("balance:negative", fmt.Sprintf("block %d: account %s has balance %s", h, addr, v))
					}
				}
				// ---- conservation
				grants := 0
				for _, c := range cands {
					if st := roleStatus(c); st == "available" && preRole[c] != "available" && preRole[c] != "frozen" && preRole[c] != "freezing" && preRole[c] != "activating" && preRole[c] != "logouting" && preRole[c] != "binding" {
						grants++
					}
				}
				allowed := new(big.Int).Add(sumBal(pre), new(big.Int).Mul(big.NewInt(int64(grants)), genesisBal))
				w.Count("obs_conservation_checks", 1)
				if grants > 0 {
					w.Count("obs_admin_grants", int64(grants))
				}
				if sumBal(post).Cmp(allowed) > 0 {
					viol("sum:increased", fmt.Sprintf("block %d: total of all balances grew from %s to %s (%d admin grant(s) in this block)", h, sumBal(pre), sumBal(post), grants))
				}
				// ---- exact deltas of a single transfer
				if single && len(res.Receipts) == 1 {
					w.Count("obs_single_transfers", 1)
					rc := res.Receipts[0]
					delta := func(addr string) *big.Int {
						x, y := pre[addr], post[addr]
						if x == nil {
							x = big.NewInt(0)
						}
						if y == nil {
							y = big.NewInt(0)
						}
						return new(big.Int).Sub(y, x)
					}
					amt, ok := new(big.Int).SetString(amtStr, 10)
					if !ok {
						amt = big.NewInt(0)
					}
					s, r := sK.Addr.String(), rAddr.String()
					moved := big.NewInt(0)
					if rc.Status == pb.Receipt_SUCCESS {
						moved = amt
					}
					preS := pre[s]
					if preS == nil {
						preS = big.NewInt(0)
					}
					if rc.Status == pb.Receipt_SUCCESS && amt.Sign() < 0 {
						viol("transfer:negative-amount-accepted", fmt.Sprintf("block %d: transfer of %s from %s to %s succeeded", h, amtStr, s, r))
					}
					if rc.Status == pb.Receipt_SUCCESS && amt.Cmp(preS) > 0 {
						viol("transfer:uncovered-accepted", fmt.Sprintf("block %d: transfer of %s succeeded although the sender held only %s", h, amtStr, preS))
					}
					// "moves exactly the stated amount ... and fails without effect when the sender cannot cover it": a
					// well-formed positive amount that the sender holds together with the fee (gas used as the receipt
					// says x the gas price) has to be moved
					if rc.Status != pb.Receipt_SUCCESS && ok && amt.Sign() > 0 && amtStr == amt.String() {
						need := new(big.Int).Add(amt, new(big.Int).Mul(new(big.Int).SetUint64(rc.GasUsed), big.NewInt(price)))
						w.Count("obs_refused_transfers_judged", 1)
						if need.Cmp(preS) <= 0 {
							viol("transfer:coverable-transfer-refused", fmt.Sprintf("block %d: transfer of %s from %s (balance %s, gas used %d at price %d: amount and fee %s) to %s was refused: %.100s", h, amtStr, s, preS, rc.GasUsed, price, need, r, string(rc.Ret)))
						}
					}
					// total change of all accounts = -(rounding loss) in [-(n-1), 0]
					tot := new(big.Int).Sub(sumBal(post), sumBal(pre))
					if tot.Sign() > 0 || tot.Cmp(big.NewInt(-int64(nAdmins-1))) < 0 {
						viol("fee:rounding-out-of-range", fmt.Sprintf("block %d: one transaction changed the total of all balances by %s (admins: %d)", h, tot, nAdmins))
					}
					// fee paid by the sender = -(delta(s)) - moved (+ what it got back as receiver/admin)
					var adminGain *big.Int
					shares := map[string]bool{}
					for ad := range admins {
						d := delta(ad)
						if ad == s {
							continue // sender-admin: cannot separate
						}
						if ad == r {
							d = new(big.Int).Sub(d, moved)
						}
						shares[d.String()] = true
						adminGain = d
					}
					if len(shares) > 1 {
						viol("fee:unequal-admin-shares", fmt.Sprintf("block %d: admins received different shares %v", h, shares))
					}
					if adminGain != nil && adminGain.Sign() < 0 {
						viol("fee:admin-debited", fmt.Sprintf("block %d: an admin lost %s", h, adminGain))
					}
					// receiver gets exactly the amount (when it is neither the sender nor an admin)
					if r != s && !admins[r] {
						if delta(r).Cmp(moved) != 0 {
							sig := "transfer:receiver-delta"
							if rc.Status != pb.Receipt_SUCCESS {
								sig = "transfer:failed-but-moved"
							}
							viol(sig, fmt.Sprintf("block %d: transfer %q %v: receiver balance changed by %s, expected %s", h, amtStr, rc.Status, delta(r), moved))
						}
					}
					// every other account unchanged
					for addr := range post {
						if addr == s || addr == r || admins[addr] {
							continue
						}
						if delta(addr).Sign() != 0 {
							viol("transfer:third-party-changed", fmt.Sprintf("block %d: account %s not involved in the transfer changed by %s", h, addr, delta(addr)))
						}
					}
					// sender: loses moved + fee where fee in [n*share, n*share + n-1]
					if !admins[s] && adminGain != nil {
						lost := new(big.Int).Neg(delta(s))
						if r == s {
							// self transfer: only the fee leaves
						} else {
							lost.Sub(lost, moved)
						}
						lo := new(big.Int).Mul(adminGain, big.NewInt(int64(nAdmins)))
						hi := new(big.Int).Add(lo, big.NewInt(int64(nAdmins-1)))
						if lost.Cmp(lo) < 0 || lost.Cmp(hi) > 0 {
							viol("fee:sender-vs-admins", fmt.Sprintf("block %d: sender lost %s beyond the amount, admins gained %d x %s", h, lost, nAdmins, adminGain))
						}
					}
				}
			}
			world.R.Close()
			var sh []string
			for k := range shape {
				sh = append(sh, k)
			}
			sort.Strings(sh)
			if id == a.From {
				w.Sample(map[string]interface{}{"case": id, "opts": opts, "single_transfer_classes": sh})
			}
			w.CaseDone(fmt.Sprintf("n%d|p%d|%s", nAdmins, opts.GasPrice, strings.Join(sh, ",")), true)
		})
	}
	w.End()
	return 0
}

func classifyAmount(s string, bal, fee *big.Int) string {
	v, ok := new(big.Int).SetString(s, 10)
	switch {
	case !ok && len(s) > 0 && s[0] >= '0' && s[0] <= '9':
		return "non-numeric-with-numeric-prefix"
	case !ok:
		return "non-numeric"
	case v.Sign() < 0:
		return "negative"
	case v.Sign() == 0:
		return "zero"
	case v.Cmp(bal) > 0:
		return "above-balance"
	case v.Cmp(bal) == 0:
		return "exact-balance"
	case new(big.Int).Add(v, fee).Cmp(bal) > 0:
		return "amount+fee-above-balance"
	case new(big.Int).Add(v, fee).Cmp(bal) == 0:
		return "amount+fee-exact"
	}
	return "covered"
}

// ------------------------------------------------------------------------------------------
// C07: a failed transaction leaves nothing but nonce and fee; views change nothing

func mon07Workload(args []string) int {
	a := parseArgs("mon07", args, nil)
	w := vlog.Open(a.Out)
	for id := a.From; id < a.To; id++ {
		rng := vlog.CaseRand(a.Seed, "mon07", id)
		opts := harness.Options{NoAudit: rng.Intn(2) == 0}
		w.CaseStart(id, map[string]interface{}{"opts": opts})
		guard(w, "mon07", func() { mon07Case(w, a, id, rng, opts) })
	}
	w.End()
	return 0
}

func keyOf(addr *types.Address) *harness.Key {
	if addr == nil {
		return nil
	}
	cands := []*harness.Key{harness.Pauper(), harness.DetKey("empty-account"), harness.DetKey("poor-deployer"), harness.DetKey("tight-sender")}
	for i := 0; i < 4; i++ {
		cands = append(cands, harness.User(i), harness.AdminKey(i))
	}
	for _, c := range []string{harness.ChainA, harness.ChainB, harness.ChainC, "chainW", "chainT", "chainU", "hub2"} {
		cands = append(cands, harness.ChainAdmin(c))
	}
	for _, k := range cands {
		if k.Addr.String() == addr.String() {
			return k
		}
	}
	return nil
}

func mon07Case(w *vlog.W, a *wargs, id int, rng *rand.Rand, opts harness.Options) {
	world, dir, err := newCaseWorld(a.Work, id, opts, "atom")
	defer os.RemoveAll(dir)
	if err != nil {
		w.Inconclusive(err.Error())
		w.CaseDone("fixture-error", false)
		return
	}
	seen := map[string]bool{}
	viol := func(sig, detail string, wit interface{}) {
		if seen[sig] {
			return
		}
		seen[sig] = true
		w.Violation(sig, detail, wit)
	}
	admins := map[string]bool{}
	for i := 0; i < 4; i++ {
		admins[harness.AdminKey(i).Addr.String()] = true
	}
	g := newMixGen(world, rng)
	shape := map[string]bool{}
	shadowDir := dir + ".shadow"
	defer os.RemoveAll(shadowDir)
	for b := 0; b < 24; b++ {
		h := world.R.Height() + 1
		// ---- views must change nothing
		if rng.Intn(3) == 0 {
			beforeS, beforeC := world.R.DumpState(), world.R.DumpChain()
			metaB := world.R.L.GetChainMeta()
			calls := []func(){
				func() { world.R.Query(harness.AddrStore, "Set", pb.String("view-key"), pb.String("view-val")) },
				func() {
					world.R.Query(harness.AddrInterchain, "DeleteInterchain", pb.String(harness.FullID(harness.ChainA, "s1")))
				},
				func() { world.R.Query(harness.AddrInterchain, "Register", pb.String("chainA:viewsvc")) },
				func() {
					world.R.Query(harness.AddrService, "RecordInvokeService", pb.String(harness.FullID(harness.ChainA, "s1")), pb.String(harness.FullID(harness.ChainB, "s1")), pb.Bool(true))
				},
				func() { world.R.Query(harness.AddrGov, "Vote", pb.String("x-1"), pb.String("approve"), pb.String("r")) },
			}
			calls[rng.Intn(len(calls))]()
			w.Count("obs_view_calls", 1)
			// ... nor may it leave anything behind in the view ledger's working set: what the next read-only call
			// (or anybody reading through that ledger) sees is the committed state. The caller of the harness's
			// views never sends a real transaction: its committed nonce is 0 and it owns nothing.
			qa := harness.DetKey("query-account").Addr
			if n, bal := world.R.ViewL.GetNonce(qa), world.R.ViewL.GetBalance(qa); n != 0 || bal.Sign() != 0 {
				viol("view:working-set-left-behind", fmt.Sprintf("after a read-only call the view ledger answers nonce %d, balance %s for the caller; committed: nonce 0, balance 0", n, bal), nil)
			}
			world.R.ViewL.Clear()
			w.Count("obs_view_ledger_readbacks", 1)
			afterS, afterC := world.R.DumpState(), world.R.DumpChain()
			metaA := world.R.L.GetChainMeta()
			if d := diffDumps(beforeS, afterS, nil); len(d) > 0 {
				viol("view:state-changed", fmt.Sprintf("a read-only call changed the state store: %v", d), nil)
			}
			if d := diffDumps(beforeC, afterC, nil); len(d) > 0 {
				viol("view:chain-store-changed", fmt.Sprintf("a read-only call changed the chain store: %v", d), nil)
			}
			if metaA.Height != metaB.Height || metaA.BlockHash.String() != metaB.BlockHash.String() || metaA.InterchainTxCount != metaB.InterchainTxCount {
				viol("view:chain-meta-changed", "a read-only call changed the chain meta", nil)
			}
		}
		// ---- the block
		txs := g.genBlock(h)
		if rng.Intn(4) == 0 { // pauper: fee failures after the contract already wrote
			p := harness.Pauper()
			txs = append(txs, world.BVM(p, harness.AddrStore, "Set", pb.String("pauper-key"), pb.String(fmt.Sprintf("v%d", b))),
				world.BVM(p, harness.AddrStore, "Set", pb.String("pauper-key"), pb.String(fmt.Sprintf("w%d", b))))
			shape["fee-failure-after-write"] = true
		}
		txs = harness.WireRoundTrip(txs)
		// balances of the senders before the block (for the fee oracle below)
		preBal := map[string]*big.Int{}
		nFrom := map[string]int{}
		credited := map[string]bool{}
		for _, tx := range txs {
			if f := tx.GetFrom(); f != nil {
				nFrom[f.String()]++
				if _, ok := preBal[f.String()]; !ok {
					preBal[f.String()] = new(big.Int).Set(world.R.ViewL.GetBalance(f))
				}
			}
			if t := tx.GetTo(); t != nil {
				credited[t.String()] = true
			}
		}
		world.R.ViewL.Clear()
		// copy of the pre-state for the shadow replica
		world.R.Close()
		os.RemoveAll(shadowDir)
		if err := harness.CopyDir(dir, shadowDir); err != nil {
			w.Inconclusive(err.Error())
			return
		}
		r2, err := harness.Open(dir, opts)
		if err != nil {
			viol("reopen:error", err.Error(), nil)
			return
		}
		world.R = r2
		world.TS += 1000
		w.Step(fmt.Sprintf("block %d (%d txs)", h, len(txs)))
		res, err := world.R.ExecBlock(txs, world.TS, nil)
		if err != nil {
			viol("exec:error", err.Error(), nil)
			return
		}
		g.absorb(txs, res)
		absorbDeploys(g, txs, res)
		w.Count("blocks", 1)
		// never announced
		failedIdx := map[uint64]bool{}
		nFailed := 0
		var descs []string
		for i, rc := range res.Receipts {
			descs = append(descs, fmt.Sprintf("%s=%v", describeTx(txs[i]), rc.Status))
			if rc.Status == pb.Receipt_FAILED {
				failedIdx[uint64(i)] = true
				nFailed++
			}
		}
		w.Count("failed_txs", int64(nFailed))
		// ---- fee oracle: a failed transaction costs its sender exactly the fee (gas used x gas price), or the
		// whole balance when that does not cover the fee. Decidable when the sender has no other transaction
		// in the block, is not a fee-receiving admin and is not the addressee of any transaction of the block.
		for i, rc := range res.Receipts {
			f := txs[i].GetFrom()
			if rc.Status != pb.Receipt_FAILED || f == nil || nFrom[f.String()] != 1 || admins[f.String()] || credited[f.String()] {
				continue
			}
			price := new(big.Int).SetUint64(world.R.Cfg.Genesis.BvmGasPrice)
			kind := "bvm"
			if et, ok := txs[i].(*ethkittypes.EthTransaction); ok {
				price, kind = et.GetGasPrice(), "eth"
			}
			fee := new(big.Int).Mul(new(big.Int).SetUint64(rc.GasUsed), price)
			want := new(big.Int).Sub(preBal[f.String()], fee)
			if want.Sign() < 0 {
				want = big.NewInt(0)
			}
			got := world.R.ViewL.GetBalance(f)
			w.Count("obs_failed_tx_fee_checks:"+kind, 1)
			if kind == "bvm" && got.Sign() == 0 && strings.Contains(string(rc.Ret), "insufficient balance") {
				// the body ran, what it left did not cover the fee: the statement's "whole remaining balance if it
				// cannot cover the fee" - the restored balance is taken in full even when it exceeds the fee
				w.Count("obs_failed_tx_whole_balance_taken", 1)
				continue
			}
			if got.Cmp(want) != 0 {
				viol("failed-tx:balance-effect-beyond-fee:"+kind, fmt.Sprintf("block %d tx %d (%s) FAILED with gas used %d at price %v: its sender %s had %v before the block and has %v after it, nonce-and-fee only would leave %v; receipt: %.80s", h, i, describeTx(txs[i]), rc.GasUsed, price, f.String(), preBal[f.String()], got, want, string(rc.Ret)), map[string]interface{}{"block": descs})
			}
		}
		world.R.ViewL.Clear()
		for chain, sl := range res.Meta.Counter {
			for _, vi := range sl.Slice {
				w.Count("obs_delivery_entries", 1)
				if failedIdx[vi.Index] {
					viol("announce:failed-tx", fmt.Sprintf("block %d: tx %d has a FAILED receipt but is listed in the delivery set of chain %s (valid=%v); tx: %s", h, vi.Index, chain, vi.Valid, descs[vi.Index]), map[string]interface{}{"block": descs})
				}
			}
		}
		if nFailed == 0 {
			continue
		}
		// ---- shadow: failed txs replaced by null failures of the same sender and nonce
		var txs2 []pb.Transaction
		exempt := map[string]bool{}
		usable := true
		for i, tx := range txs {
			if !failedIdx[uint64(i)] {
				txs2 = append(txs2, tx)
				continue
			}
			if tx.GetFrom() == nil {
				usable = false // no sender at all: nothing to build a null failure from
				break
			}
			if et, isEth := tx.(*ethkittypes.EthTransaction); isEth {
				// null failure of an Ethereum-format sender: same nonce, no gas - rejected before anything is bought
				var ek *ecdsa.PrivateKey
				for _, n := range []string{"eth-0", "eth-1"} {
					if harness.EthAddr(harness.EthKey(n)).String() == tx.GetFrom().String() {
						ek = harness.EthKey(n)
					}
				}
				if ek == nil {
					usable = false
					break
				}
				exempt[tx.GetFrom().String()] = true
				txs2 = append(txs2, harness.EthTx(ek, world.R.Cfg.Genesis.ChainID, et.GetNonce(), 0, big.NewInt(0), big.NewInt(0), harness.EthAddr(harness.EthKey("eth-receiver")), nil, et.GetTimeStamp()))
				continue
			}
			k := keyOf(tx.GetFrom())
			if k == nil {
				usable = false // sender key unknown (mutated From): cannot build the null failure
				break
			}
			exempt[k.Addr.String()] = true
			nt := harness.RawTx(k, tx.GetNonce(), tx.GetTimeStamp(), harness.AddrStore, nil) // empty payload: rejected before any VM runs
			txs2 = append(txs2, nt)
		}
		if !usable {
			w.Count("blocks_skipped_unknown_sender", 1)
			continue
		}
		txs2 = harness.WireRoundTrip(txs2)
		sh, err := harness.Open(shadowDir, opts)
		if err != nil {
			viol("shadow:open-error", err.Error(), nil)
			return
		}
		res2, err := sh.ExecBlock(txs2, world.TS, nil)
		if err != nil {
			sh.Close()
			viol("shadow:exec-error", err.Error(), nil)
			return
		}
		// the replaced txs must fail in the shadow too, everything else must have the same status
		consistent := true
		for i := range txs {
			if failedIdx[uint64(i)] {
				if res2.Receipts[i].Status != pb.Receipt_FAILED {
					consistent = false
				}
			} else if res2.Receipts[i].Status != res.Receipts[i].Status {
				consistent = false
			}
		}
		d1, d2 := world.R.DumpState(), sh.DumpState()
		sh.Close()
		w.Count("obs_differential_blocks", 1)
		for ad := range admins {
			exempt[ad] = true
		}
		diffs := diffDumps(d1, d2, func(k string, a, b []byte) bool {
			if strings.HasPrefix(k, "journal-") {
				return true
			}
			if strings.HasPrefix(k, "account-") && exempt[k[len("account-"):]] {
				// nonce and code hash must agree, the balance may differ by the fee
				x := &ledger2.InnerAccount{Balance: big.NewInt(0)}
				y := &ledger2.InnerAccount{Balance: big.NewInt(0)}
				if a == nil || b == nil || x.Unmarshal(a) != nil || y.Unmarshal(b) != nil {
					return false
				}
				return x.Nonce == y.Nonce && bytes.Equal(x.CodeHash, y.CodeHash)
			}
			return false
		})
		// value: replacing failed transactions by null failures moves fees between senders and admins but neither
		// creates nor destroys anything beyond the fee split's rounding (less than one unit per admin and tx)
		if consistent {
			sumOf := func(d map[string][]byte) *big.Int {
				t := new(big.Int)
				for k, v := range d {
					if strings.HasPrefix(k, "account-") {
						x := &ledger2.InnerAccount{Balance: big.NewInt(0)}
						if x.Unmarshal(v) == nil && x.Balance != nil {
							t.Add(t, x.Balance)
						}
					}
				}
				return t
			}
			gap := new(big.Int).Sub(sumOf(d1), sumOf(d2))
			w.Count("obs_failed_tx_value_checks", 1)
			if bound := big.NewInt(int64(2 * (len(admins) + 4) * (len(txs) + 1))); new(big.Int).Abs(gap).Cmp(bound) > 0 {
				var fd []string
				for i := range txs {
					if failedIdx[uint64(i)] {
						fd = append(fd, descs[i]+" ret="+fmt.Sprintf("%.80q", string(res.Receipts[i].Ret)))
					}
				}
				viol("failed-tx:value-created-or-destroyed", fmt.Sprintf("block %d: the total of all balances is %s with the FAILED transactions and would be %s more without them (null failures of the same senders); failed txs: %v", h, sumOf(d1), new(big.Int).Neg(gap), fd), map[string]interface{}{"block": descs})
			}
		}
		if len(diffs) > 0 {
			if !consistent {
				// a surviving tx behaved differently in the shadow: it depended on state the failed tx changed
				// legitimately (its balance) - not decidable here
				w.Count("blocks_undecided_dependent_txs", 1)
				continue
			}
			var fd []string
			for i := range txs {
				if failedIdx[uint64(i)] {
					fd = append(fd, descs[i]+" ret="+fmt.Sprintf("%.80q", string(res.Receipts[i].Ret)))
				}
			}
			cls := classifyKeys(diffs)
			// one narrow class has a signature of its own (it is a known finding): the only trace is an account
			// record with zero balance, zero nonce and no code at an address that has no record in the shadow
			onlyEmptyAccounts := true
			for k, v := range d1 {
				if w2, ok := d2[k]; ok && bytes.Equal(v, w2) || strings.HasPrefix(k, "journal-") {
					continue
				}
				x := &ledger2.InnerAccount{Balance: big.NewInt(0)}
				if _, inShadow := d2[k]; inShadow || !strings.HasPrefix(k, "account-") || exempt[k[len("account-"):]] && false || x.Unmarshal(v) != nil ||
					x.Nonce != 0 || (x.Balance != nil && x.Balance.Sign() != 0) || len(x.CodeHash) != 0 {
					if strings.HasPrefix(k, "account-") && exempt[k[len("account-"):]] {
						continue
					}
					onlyEmptyAccounts = false
				}
			}
			for k := range d2 {
				if _, ok := d1[k]; !ok && !strings.HasPrefix(k, "journal-") {
					onlyEmptyAccounts = false
				}
			}
			if onlyEmptyAccounts {
				cls = "empty-account-record-created"
			}
			viol("failed-tx:state-effect:"+cls, fmt.Sprintf("block %d: replacing the FAILED transactions by null failures of the same sender and nonce changes the resulting state beyond sender/admin balances; differing keys: %v; failed txs: %v", h, diffs, fd), map[string]interface{}{"block": descs})
		}
		shape[fmt.Sprintf("failed%d", min(nFailed, 5))] = true
	}
	world.R.Close()
	var sh []string
	for k := range shape {
		sh = append(sh, k)
	}
	sort.Strings(sh)
	if id == a.From {
		w.Sample(map[string]interface{}{"case": id, "opts": opts, "kinds": sh})
	}
	for k, n := range g.kinds {
		w.Count("tx:"+k, int64(n))
	}
	w.CaseDone(fmt.Sprintf("audit%v|%s", !opts.NoAudit, strings.Join(sh, ",")), true)
}

func diffDumps(a, b map[string][]byte, ignore func(k string, x, y []byte) bool) []string {
	var out []string
	for k, v := range a {
		if w, ok := b[k]; !ok || !bytes.Equal(v, w) {
			if ignore != nil && ignore(k, v, b[k]) {
				continue
			}
			out = append(out, showKey(k))
		}
	}
	for k, v := range b {
		if _, ok := a[k]; !ok {
			if ignore != nil && ignore(k, nil, v) {
				continue
			}
			out = append(out, showKey(k))
		}
	}
	sort.Strings(out)
	if len(out) > 12 {
		out = out[:12]
	}
	return out
}

func showKey(k string) string {
	if len(k) > 20 && !strings.HasPrefix(k, "account-") && !strings.HasPrefix(k, "code-") && !strings.HasPrefix(k, "journal-") {
		return fmt.Sprintf("0x%x|%q", k[:20], k[20:])
	}
	return fmt.Sprintf("%q", k)
}

func classifyKeys(keys []string) string {
	cls := map[string]bool{}
	for _, k := range keys {
		switch {
		case strings.HasPrefix(k, "\"account-"):
			cls["account-record"] = true
		case strings.HasPrefix(k, "\"code-"):
			cls["code"] = true
		default:
			cls["contract-storage"] = true
		}
	}
	var out []string
	for c := range cls {
		out = append(out, c)
	}
	sort.Strings(out)
	return strings.Join(out, "+")
}
