package main

// C19, concurrent part: the pool's External interface is documented as "concurrent and safe, can be called by the
// api module directly", and the order nodes do call GetPendingNonceByAccount from API goroutines while their event
// loop drives the pool. In one case out of eight the driver therefore runs with reader goroutines that call
// GetPendingNonceByAccount all the time; the recorded history (call and return of every reader call, call and
// return of every mutating pool call of the driver together with the pending nonces the driver itself reads
// right after it) is checked for linearizability with porcupine against a register per account. A call of the
// driver is not one atomic write: the pool may move an account's pending nonce in steps (a commit of nonces 4
// and 5 shows 5 on the way to 6), so a call is recorded as two operations of the history: "in transition
// between the value before and the value after" at its start, "holds the value after" at its end; a read that is
// linearized in between may return any value of the closed interval. The race detector watches the same
// executions.

import (
	"fmt"
	"runtime"
	"sync"
	"sync/atomic"
	"time"

	"github.com/anishathalye/porcupine"
	"github.com/meshplus/bitxhub-model/pb"
	raftproto "github.com/meshplus/bitxhub/pkg/order/etcdraft/proto"
	"github.com/meshplus/bitxhub/pkg/order/mempool"
)

type concIn struct {
	Acct   string
	Write  bool
	Lo, Hi uint64 // writes: the register holds some value of [Lo, Hi] from now on
	Op     string // writes: the driver's call
}

type concRec struct {
	clock   int64 // one monotonic source for all call / return events
	accts   []string
	cur     atomic.Value // mempool.MemPool the readers use
	mu      sync.Mutex
	ops     []porcupine.Operation
	stop    chan struct{}
	wg      sync.WaitGroup
	readers int
	maxRead int
	init    map[string]uint64
	prev    map[string]uint64 // driver only: the value after its previous call
	reads   int64
}

func (c *concRec) tick() int64 { return atomic.AddInt64(&c.clock, 1) }

func newConcRec(accts []string, first mempool.MemPool) *concRec {
	c := &concRec{accts: accts, stop: make(chan struct{}), readers: 3, maxRead: 1500, init: map[string]uint64{}}
	c.cur.Store(&first)
	c.prev = map[string]uint64{}
	for _, a := range accts {
		c.init[a] = first.GetPendingNonceByAccount(a)
		c.prev[a] = c.init[a]
	}
	for i := 0; i < c.readers; i++ {
		c.wg.Add(1)
		go c.reader(i)
	}
	return c
}

func (c *concRec) pool() mempool.MemPool { return *(c.cur.Load().(*mempool.MemPool)) }

func (c *concRec) reader(id int) {
	defer c.wg.Done()
	var local []porcupine.Operation
	for n := 0; n < c.maxRead; n++ {
		select {
		case <-c.stop:
			n = c.maxRead
			continue
		default:
		}
		a := c.accts[(n+id)%len(c.accts)]
		call := c.tick()
		p := c.pool() // after the call event: a reader that still talks to the pool of before a restart overlaps the restart
		v := p.GetPendingNonceByAccount(a)
		ret := c.tick()
		local = append(local, porcupine.Operation{ClientId: id + 1, Input: concIn{Acct: a}, Call: call, Output: v, Return: ret})
		if n%3 == 0 {
			runtime.Gosched()
		}
	}
	c.mu.Lock()
	c.ops = append(c.ops, local...)
	c.reads += int64(len(local))
	c.mu.Unlock()
}

// begin / wrote bracket one mutating call of the driver: between the two every account's register may hold any
// value between what it held before and what the driver reads back afterwards (no other writer exists).
func (c *concRec) begin() [2]int64 { return [2]int64{c.tick(), c.tick()} }

func (c *concRec) wrote(t [2]int64, op string) {
	t2 := c.tick()
	p := c.pool()
	vals := make([]uint64, len(c.accts))
	for i, a := range c.accts {
		vals[i] = p.GetPendingNonceByAccount(a)
	}
	t3 := c.tick()
	c.mu.Lock()
	for i, a := range c.accts {
		lo, hi := c.prev[a], vals[i]
		if lo > hi {
			lo, hi = hi, lo
		}
		c.ops = append(c.ops,
			porcupine.Operation{ClientId: 0, Input: concIn{Acct: a, Write: true, Lo: lo, Hi: hi, Op: op + " begins"}, Call: t[0], Output: uint64(0), Return: t[1]},
			porcupine.Operation{ClientId: 0, Input: concIn{Acct: a, Write: true, Lo: vals[i], Hi: vals[i], Op: op + " done"}, Call: t2, Output: uint64(0), Return: t3})
		c.prev[a] = vals[i]
	}
	c.mu.Unlock()
}

// finish stops the readers and checks the history. Returns (verdict, detail, number of reads, number of writes).
func (c *concRec) finish() (string, string, int64, int64) {
	close(c.stop)
	c.wg.Wait()
	init := c.init
	model := porcupine.Model{
		Partition: func(h []porcupine.Operation) [][]porcupine.Operation {
			by := map[string][]porcupine.Operation{}
			var order []string
			for _, o := range h {
				a := o.Input.(concIn).Acct
				if _, ok := by[a]; !ok {
					order = append(order, a)
				}
				by[a] = append(by[a], o)
			}
			var out [][]porcupine.Operation
			for _, a := range order {
				// the register's initial value travels as a first write that precedes everything
				first := porcupine.Operation{ClientId: 0, Input: concIn{Acct: a, Write: true, Lo: init[a], Hi: init[a]}, Call: -1, Output: uint64(0), Return: 0}
				out = append(out, append([]porcupine.Operation{first}, by[a]...))
			}
			return out
		},
		Init: func() interface{} { return [2]uint64{} },
		Step: func(st, in, out interface{}) (bool, interface{}) {
			i := in.(concIn)
			if i.Write {
				return true, [2]uint64{i.Lo, i.Hi}
			}
			v, s := out.(uint64), st.([2]uint64)
			return s[0] <= v && v <= s[1], st
		},
		DescribeOperation: func(in, out interface{}) string {
			i := in.(concIn)
			if i.Write {
				return fmt.Sprintf("driver (%s): pending(%s) in [%d,%d]", i.Op, i.Acct[:10], i.Lo, i.Hi)
			}
			return fmt.Sprintf("read pending(%s) -> %d", i.Acct[:10], out.(uint64))
		},
	}
	writes := (int64(len(c.ops)) - c.reads) / 2
	res, info := porcupine.CheckOperationsVerbose(model, c.ops, 60*time.Second)
	switch res {
	case porcupine.Ok:
		return "ok", "", c.reads, writes
	case porcupine.Unknown:
		return "unknown", "porcupine timed out", c.reads, writes
	}
	// witness: the longest partial linearization's first refused operation, per partition
	detail := "history of concurrent GetPendingNonceByAccount calls is not linearizable against a register per account"
	// first-level witness: a read whose value the register cannot have held at any moment of the read
	for _, a := range c.accts {
		var ws, rs []porcupine.Operation
		for _, o := range c.ops {
			if i := o.Input.(concIn); i.Acct == a {
				if i.Write {
					ws = append(ws, o)
				} else {
					rs = append(rs, o)
				}
			}
		}
		found := false
		for _, r := range rs {
			v := r.Output.(uint64)
			lo, hi, lastRet, lastOp := init[a], init[a], int64(-1), "start"
			var during []string
			for _, w := range ws {
				if w.Return < r.Call && w.Return > lastRet {
					lo, hi, lastRet, lastOp = w.Input.(concIn).Lo, w.Input.(concIn).Hi, w.Return, w.Input.(concIn).Op
				}
			}
			ok := lo <= v && v <= hi
			for _, w := range ws {
				if w.Call < r.Return && w.Return > r.Call {
					during = append(during, fmt.Sprintf("%s [%d,%d]", w.Input.(concIn).Op, w.Input.(concIn).Lo, w.Input.(concIn).Hi))
					if w.Input.(concIn).Lo <= v && v <= w.Input.(concIn).Hi {
						ok = true
					}
				}
			}
			if !ok {
				detail += fmt.Sprintf("; account %s: a read [call %d, return %d] returned %d; the last event of the driver before the read was (%s) with the register in [%d,%d], driver events overlapping the read: %v", a[:10], r.Call, r.Return, v, lastOp, lo, hi, during)
				found = true
				break
			}
		}
		if found {
			break
		}
	}
	for pi, part := range info.PartialLinearizationsOperations() {
		longest := 0
		for _, l := range part {
			if len(l) > longest {
				longest = len(l)
			}
		}
		_ = pi
		if longest > 0 {
			for _, l := range part {
				if len(l) == longest {
					last := l[len(l)-1]
					detail += fmt.Sprintf("; a longest linearizable prefix of one account has %d operations and ends with %s [call %d, return %d]", longest, model.DescribeOperation(last.Input, last.Output), last.Call, last.Return)
					break
				}
			}
		}
	}
	return "illegal", detail, c.reads, writes
}

// recPool decorates the pool the driver talks to: every mutating call becomes a write of the history.
type recPool struct {
	mempool.MemPool
	c *concRec
}

func (r *recPool) ProcessTransactions(txs []pb.Transaction, isLeader, isLocal bool) *raftproto.RequestBatch {
	call := r.c.begin()
	b := r.MemPool.ProcessTransactions(txs, isLeader, isLocal)
	r.c.wrote(call, "ProcessTransactions")
	return b
}
func (r *recPool) GenerateBlock() *raftproto.RequestBatch {
	call := r.c.begin()
	b := r.MemPool.GenerateBlock()
	r.c.wrote(call, "GenerateBlock")
	return b
}
func (r *recPool) CommitTransactions(s *mempool.ChainState) {
	call := r.c.begin()
	r.MemPool.CommitTransactions(s)
	r.c.wrote(call, "CommitTransactions")
}
func (r *recPool) MarkBatched(txs []pb.Transaction) {
	call := r.c.begin()
	r.MemPool.MarkBatched(txs)
	r.c.wrote(call, "MarkBatched")
}
func (r *recPool) RemoveAliveTimeoutTxs(d time.Duration) uint64 {
	call := r.c.begin()
	n := r.MemPool.RemoveAliveTimeoutTxs(d)
	r.c.wrote(call, "RemoveAliveTimeoutTxs")
	return n
}
