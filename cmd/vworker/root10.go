package main

import (
	"fmt"
	"github.com/meshplus/bitxhub-kit/types"
	"io/ioutil"
	"math/big"
	"math/rand"
	"os"
	"sort"
	"strings"

	"github.com/meshplus/bitxhub/verif/harness"
	"github.com/meshplus/bitxhub/verif/vlog"
)

func init() { workloads["root10"] = root10Workload }

// swapCase turns "b12" into "B12" and back.
func swapCase(v string) string {
	if v == strings.ToLower(v) {
		return strings.ToUpper(v)
	}
	return strings.ToLower(v)
}

// A write set: what differs from the committed state after the block.
type wsEntry struct {
	A     int    `json:"a"`
	Field string `json:"f"` // "s:<key>" storage, "bal", "nonce", "code"
	V     string `json:"v"` // storage value ("<nil>" = delete), decimal for bal/nonce, code text
}

type r10Variant struct {
	Name  string
	Cold  bool   // reopen after the base blocks
	Cache [3]int // account cache sizes (0 = default)
}

// realise turns a write set into an op list according to the style.
func realise(rng *rand.Rand, ws []wsEntry, base map[string]string, style string) []kvOp {
	idx := rng.Perm(len(ws))
	if style == "baseline" {
		idx = make([]int, len(ws))
		for i := range idx {
			idx[i] = i
		}
	}
	var ops []kvOp
	final := func(e wsEntry) kvOp {
		switch {
		case strings.HasPrefix(e.Field, "s:"):
			return kvOp{Op: "set", A: e.A, K: e.Field[2:], V: e.V}
		case e.Field == "bal":
			var n int64
			fmt.Sscan(e.V, &n)
			return kvOp{Op: "bal", A: e.A, N: n}
		case e.Field == "nonce":
			var n int64
			fmt.Sscan(e.V, &n)
			return kvOp{Op: "nonce", A: e.A, N: n}
		default:
			return kvOp{Op: "code", A: e.A, V: e.V}
		}
	}
	junk := func(e wsEntry, i int) kvOp {
		o := final(e)
		switch o.Op {
		case "set":
			o.V = fmt.Sprintf("junk%d", i)
		case "bal", "nonce":
			o.N += int64(1000 + i)
		case "code":
			o.V = fmt.Sprintf("junkcode%d", i)
		}
		return o
	}
	read := func(a int, k string) kvOp { return kvOp{Op: "get", A: a, K: k} }
	for n, i := range idx {
		e := ws[i]
		switch style {
		case "redundant":
			for j := 0; j < 1+rng.Intn(2); j++ {
				ops = append(ops, junk(e, n*3+j))
			}
			if rng.Intn(3) == 0 {
				ops = append(ops, kvOp{Op: "endtx"})
			}
		case "reads":
			ops = append(ops, read(rng.Intn(4), kvKeys[rng.Intn(len(kvKeys))]), kvOp{Op: "getacct", A: e.A})
		case "revert-storage":
			// unrelated journaled storage writes inside a snapshot that is reverted
			ops = append(ops, kvOp{Op: "snap"}, kvOp{Op: "set", A: e.A, K: "zz-unrelated", V: fmt.Sprintf("u%d", n)},
				kvOp{Op: "set", A: rng.Intn(4), K: kvKeys[rng.Intn(len(kvKeys))], V: fmt.Sprintf("u%d", n)}, kvOp{Op: "revert", N: 0})
		case "revert-acct-field":
			// a reverted balance / nonce / code write, on an account that is otherwise untouched (3) and on the
			// account of the entry itself (which then gets its real write)
			acct := []int{3, e.A}[rng.Intn(2)]
			w := []kvOp{{Op: "bal", A: acct, N: int64(77 + n)}, {Op: "nonce", A: acct, N: int64(900 + n)}, {Op: "code", A: acct, V: fmt.Sprintf("tmpcode%d", n)}}[rng.Intn(3)]
			ops = append(ops, kvOp{Op: "getacct", A: acct}, kvOp{Op: "snap"}, w, kvOp{Op: "revert", N: 0})
		case "restore-storage":
			if strings.HasPrefix(e.Field, "s:") {
				// another key of the same account: written, then put back to its committed value
				k := "keep"
				orig := base[fmt.Sprintf("%d|s:%s", e.A, k)]
				if orig == "" {
					orig = "<nil>"
				}
				ops = append(ops, kvOp{Op: "set", A: e.A, K: k, V: fmt.Sprintf("tmp%d", n)}, kvOp{Op: "set", A: e.A, K: k, V: orig})
			}
		case "restore-acct-field":
			var b int64
			fmt.Sscan(base[fmt.Sprintf("%d|bal", e.A)], &b)
			ops = append(ops, kvOp{Op: "bal", A: e.A, N: b + 5}, kvOp{Op: "bal", A: e.A, N: b})
		case "add-same-value":
			k := "keep"
			if orig := base[fmt.Sprintf("%d|s:%s", e.A, k)]; orig != "" {
				ops = append(ops, kvOp{Op: "add", A: e.A, K: k, V: orig})
			}
		}
		if style == "balance-by-delta" && e.Field == "bal" {
			// the same final balance, reached by credits / debits (as transfers, fees and the EVM do) instead of a set
			var want, have int64
			fmt.Sscan(e.V, &want)
			fmt.Sscan(base[fmt.Sprintf("%d|bal", e.A)], &have)
			d := want - have
			if d != 0 && rng.Intn(2) == 0 {
				ops = append(ops, kvOp{Op: "addbal", A: e.A, N: d - 3}, kvOp{Op: "addbal", A: e.A, N: 3})
			} else {
				ops = append(ops, kvOp{Op: "addbal", A: e.A, N: d})
			}
			continue
		}
		ops = append(ops, final(e))
		if style == "txs" && rng.Intn(2) == 0 {
			ops = append(ops, kvOp{Op: "endtx"})
		}
	}
	// revert-after-write: every storage entry (deletes included) is written again inside a snapshot of a later
	// transaction, and that snapshot is reverted: the first write has to stand
	if style == "revert-after-write" {
		for n, e := range ws {
			if strings.HasPrefix(e.Field, "s:") {
				ops = append(ops, kvOp{Op: "endtx"}, kvOp{Op: "snap"}, kvOp{Op: "set", A: e.A, K: e.Field[2:], V: fmt.Sprintf("late%d", n)}, kvOp{Op: "revert", N: 0})
			}
		}
	}
	// restore-acct-field may have been ordered before the final balance write: make sure the final value wins
	if style == "restore-acct-field" || style == "redundant" {
		for _, e := range ws {
			ops = append(ops, final(e))
		}
	}
	return ops
}

// r10Fork replays the base blocks, optionally reopens, applies ops and returns the root of the block.
func r10Fork(work string, v r10Variant, baseBlocks [][]kvOp, ops []kvOp) (root string, err error) {
	dir, _ := ioutil.TempDir(work, "r10.")
	defer os.RemoveAll(dir)
	kr := &kvRun{prop: "C10", cfg: kvCfg{Cache: v.Cache}, dir: dir, stats: map[string]int64{}, shape: map[string]bool{}}
	if e := kr.open(); e != nil {
		return "", e
	}
	defer func() {
		if p := recover(); p != nil {
			err = fmt.Errorf("panic: %v", p)
		}
		kr.sl.Close()
	}()
	run := func(ops []kvOp) {
		var snaps []int
		for _, op := range ops {
			addr := kvAddr(op.A)
			switch op.Op {
			case "set":
				kr.sl.SetState(addr, []byte(op.K), kvVal(op.V), nil)
			case "add":
				kr.sl.AddState(addr, []byte(op.K), kvVal(op.V))
			case "bal":
				kr.sl.SetBalance(addr, big.NewInt(op.N))
			case "nonce":
				kr.sl.SetNonce(addr, uint64(op.N))
			case "addbal":
				bl := kr.sl.(interface {
					AddBalance(*types.Address, *big.Int)
					SubBalance(*types.Address, *big.Int)
				})
				if op.N >= 0 {
					bl.AddBalance(addr, big.NewInt(op.N))
				} else {
					bl.SubBalance(addr, big.NewInt(-op.N))
				}
			case "code":
				kr.sl.SetCode(addr, []byte(op.V))
			case "suicide":
				// what the EVM's SELFDESTRUCT does to an account
				kr.sl.(interface{ Suiside(*types.Address) bool }).Suiside(addr)
			case "get":
				kr.sl.GetState(addr, []byte(op.K))
			case "getacct":
				kr.sl.GetBalance(addr)
				kr.sl.GetNonce(addr)
				kr.sl.GetCode(addr)
			case "snap":
				snaps = append(snaps, kr.sl.Snapshot())
			case "revert":
				kr.sl.RevertToSnapshot(snaps[op.N])
				snaps = snaps[:op.N]
			case "endtx":
				kr.sl.Finalise(true)
				snaps = nil
			}
		}
		kr.sl.Finalise(true)
	}
	h := uint64(0)
	for _, b := range baseBlocks {
		run(b)
		accts, r := kr.sl.FlushDirtyData()
		h++
		if e := kr.sl.Commit(h, accts, r); e != nil {
			return "", e
		}
	}
	if v.Cold {
		kr.sl.Close()
		if e := kr.open(); e != nil {
			return "", e
		}
	}
	run(ops)
	_, r := kr.sl.FlushDirtyData()
	return r.String(), nil
}

func root10Workload(args []string) int {
	a := parseArgs("root10", args, nil)
	w := vlog.Open(a.Out)
	styles := []string{"perm", "txs", "redundant", "reads", "revert-storage", "restore-storage", "revert-acct-field", "restore-acct-field", "add-same-value", "balance-by-delta", "revert-after-write"}
	for id := a.From; id < a.To; id++ {
		rng := vlog.CaseRand(a.Seed, "root10", id)
		if id%5 == 4 {
			// every fifth case: real blocks (interchain requests, receipts, timeouts, restarts) through the real
			// executor; the root monitor compares each committed block's journal and root with what changed
			ixcCase("C10", w, a, id, rng, harness.Options{NoAudit: rng.Intn(2) == 0, RootMon: true})
			continue
		}
		w.CaseStart(id, nil)
		guard(w, "root10", func() {
			// ---- base state: 2-3 blocks over 4 accounts
			base := map[string]string{} // "<a>|<field>" -> committed value
			var baseBlocks [][]kvOp
			ctr := 0
			nb := 2 + rng.Intn(2)
			selfDestruct := rng.Intn(2) == 0
			for b := 0; b < nb; b++ {
				var ops []kvOp
				for i := 0; i < 6+rng.Intn(8); i++ {
					acct := rng.Intn(3) // account 3 stays brand new
					ctr++
					switch rng.Intn(6) {
					case 0:
						ops = append(ops, kvOp{Op: "bal", A: acct, N: int64(ctr * 11)})
						base[fmt.Sprintf("%d|bal", acct)] = fmt.Sprint(ctr * 11)
					case 1:
						ops = append(ops, kvOp{Op: "nonce", A: acct, N: int64(ctr)})
						base[fmt.Sprintf("%d|nonce", acct)] = fmt.Sprint(ctr)
					case 2:
						ops = append(ops, kvOp{Op: "code", A: acct, V: fmt.Sprintf("basecode%d", ctr)})
						base[fmt.Sprintf("%d|code", acct)] = fmt.Sprintf("basecode%d", ctr)
					default:
						k := kvKeys[rng.Intn(len(kvKeys))]
						nv := fmt.Sprintf("b%d", ctr)
						if old := base[fmt.Sprintf("%d|s:%s", acct, k)]; old != "" && rng.Intn(3) == 0 {
							nv = swapCase(old) // a later base block overwrites the value by one that differs in letter case only
						}
						ops = append(ops, kvOp{Op: "set", A: acct, K: k, V: nv})
						base[fmt.Sprintf("%d|s:%s", acct, k)] = nv
					}
				}
				for acct := 0; acct < 3; acct++ {
					ops = append(ops, kvOp{Op: "set", A: acct, K: "keep", V: fmt.Sprintf("keep%d", acct)})
					base[fmt.Sprintf("%d|s:keep", acct)] = fmt.Sprintf("keep%d", acct)
				}
				// account 2 exists from the first base block on and, in half of the cases, destroys itself in the last one
				// (balance to zero; nonce, code and storage stay what they are in this ledger)
				if b == 0 {
					ops = append(ops, kvOp{Op: "bal", A: 2, N: 777})
					base["2|bal"] = "777"
				}
				if b == nb-1 && selfDestruct {
					ops = append(ops, kvOp{Op: "suicide", A: 2})
					base["2|bal"] = "0"
				}
				// one slot whose value the last base block replaces by a spelling that differs in letter case only
				if b == nb-2 {
					ops = append(ops, kvOp{Op: "set", A: 0, K: "cs", V: "spelling"})
					base["0|s:cs"] = "spelling"
				} else if b == nb-1 {
					ops = append(ops, kvOp{Op: "set", A: 0, K: "cs", V: "SPELLING"})
					base["0|s:cs"] = "SPELLING"
				}
				baseBlocks = append(baseBlocks, ops)
			}
			// ---- write set W: entries that differ from the committed state
			seen := map[string]bool{}
			var ws []wsEntry
			if rng.Intn(2) == 0 {
				// ... and W writes the earlier spelling back
				ws = append(ws, wsEntry{0, "s:cs", "spelling"})
				seen["0|s:cs"] = true
			}
			for len(ws) < 3+rng.Intn(6) {
				acct := rng.Intn(3)
				ctr++
				var e wsEntry
				switch rng.Intn(8) {
				case 0:
					e = wsEntry{acct, "bal", fmt.Sprint(ctr*13 + 1)}
				case 1:
					e = wsEntry{acct, "nonce", fmt.Sprint(ctr + 500)}
				case 2:
					e = wsEntry{acct, "code", fmt.Sprintf("newcode%d", ctr)}
				case 3: // delete an existing key
					k := kvKeys[rng.Intn(len(kvKeys))]
					if base[fmt.Sprintf("%d|s:%s", acct, k)] == "" {
						continue
					}
					e = wsEntry{acct, "s:" + k, "<nil>"}
				default:
					k := kvKeys[rng.Intn(len(kvKeys))]
					e = wsEntry{acct, "s:" + k, fmt.Sprintf("w%d", ctr)}
					if old := base[fmt.Sprintf("%d|s:%s", acct, k)]; old != "" && rng.Intn(4) == 0 {
						e.V = swapCase(old) // differs from the committed value in letter case only
					}
				}
				key := fmt.Sprintf("%d|%s", e.A, e.Field)
				if seen[key] {
					continue
				}
				seen[key] = true
				ws = append(ws, e)
			}
			sort.Slice(ws, func(i, j int) bool {
				if ws[i].A != ws[j].A {
					return ws[i].A < ws[j].A
				}
				return ws[i].Field < ws[j].Field
			})
			ref, err := r10Fork(a.Work, r10Variant{Name: "baseline"}, baseBlocks, realise(rng, ws, base, "baseline"))
			if err != nil {
				w.Violation("root:fork-error", err.Error(), nil)
				w.CaseDone("error", false)
				return
			}
			shape := map[string]bool{}
			// ---- order / history independence
			for _, style := range styles { // every history style in every case, each under a drawn cache variant
				v := r10Variant{Name: style}
				switch rng.Intn(3) {
				case 0:
					v.Cold = true
					v.Name += "+cold"
				case 1:
					v.Cache = [3]int{1 + rng.Intn(2), 1, 1}
					v.Name += "+tinycache"
				}
				ops := realise(rng, ws, base, style)
				got, err := r10Fork(a.Work, v, baseBlocks, ops)
				w.Count("forks", 1)
				w.SetAdd("variants", v.Name)
				shape[style] = true
				if err != nil {
					w.Violation("root:fork-error", err.Error(), map[string]interface{}{"variant": v.Name})
					continue
				}
				if got != ref {
					w.Violation("root:history-dependent:"+style, fmt.Sprintf("the same write set realised by history variant %q gives state root %s, the plain in-order history gives %s", v.Name, got, ref),
						map[string]interface{}{"write_set": ws, "variant": v, "ops": ops, "base_blocks": baseBlocks})
				}
			}
			// ---- sensitivity: single-field perturbations
			perturb := func(kind string, ws2 []wsEntry) {
				got, err := r10Fork(a.Work, r10Variant{Name: "baseline"}, baseBlocks, realise(rng, ws2, base, "baseline"))
				w.Count("perturbations", 1)
				w.SetAdd("perturbation_kinds", kind)
				if err != nil {
					w.Violation("root:fork-error", err.Error(), nil)
					return
				}
				if got == ref {
					w.Violation("root:insensitive:"+kind, fmt.Sprintf("perturbation %q of the write set leaves the state root unchanged (%s)", kind, ref),
						map[string]interface{}{"write_set": ws, "perturbed": ws2, "base_blocks": baseBlocks})
				}
			}
			for i, e := range ws {
				ws2 := append([]wsEntry{}, ws...)
				e2 := e
				switch {
				case e.Field == "bal" || e.Field == "nonce":
					var n int64
					fmt.Sscan(e.V, &n)
					e2.V = fmt.Sprint(n + 1)
					ws2[i] = e2
					perturb("change-"+e.Field, ws2)
				case e.Field == "code":
					e2.V = e.V + "x"
					ws2[i] = e2
					perturb("change-code", ws2)
				case e.V == "<nil>":
					// turn the delete into "left alone"
					kind := "drop-delete"
					if e.Field == "s:" {
						kind = "drop-delete:empty-key" // the entry contributes no bytes to the un-length-prefixed encoding
					}
					perturb(kind, append(append([]wsEntry{}, ws[:i]...), ws[i+1:]...))
					continue
				default:
					e2.V = e.V + "x"
					ws2[i] = e2
					perturb("change-value", ws2)
				}
				perturb("drop-entry", append(append([]wsEntry{}, ws[:i]...), ws[i+1:]...))
			}
			ctr++
			perturb("add-key", append(append([]wsEntry{}, ws...), wsEntry{rng.Intn(3), "s:extra-key", fmt.Sprintf("w%d", ctr)}))
			perturb("add-key-new-account", append(append([]wsEntry{}, ws...), wsEntry{3, "s:a", fmt.Sprintf("w%d", ctr)}))
			if id == a.From {
				w.Sample(map[string]interface{}{"case": id, "write_set": ws, "base_blocks": len(baseBlocks)})
			}
			var sh []string
			for k := range shape {
				sh = append(sh, k)
			}
			sortStrings(sh)
			w.CaseDone(fmt.Sprintf("n%d|%s", len(ws), strings.Join(sh, ",")), true)
		})
	}
	w.End()
	return 0
}
