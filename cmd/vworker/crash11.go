package main

import (
	"encoding/base64"
	"encoding/json"
	"flag"
	"fmt"
	"io/ioutil"
	"math/big"
	"os"
	"os/exec"
	"path/filepath"
	"sort"
	"strings"

	"github.com/meshplus/bitxhub-model/pb"
	"github.com/meshplus/bitxhub/verif/harness"
	"github.com/meshplus/bitxhub/verif/model"
	"github.com/meshplus/bitxhub/verif/vlog"
)

func init() {
	workloads["crash11"] = crash11Workload
	workloads["c11-probe"] = c11Probe
	workloads["c11-exec"] = c11Exec
}

var bfTables = []string{"hashes", "bodies", "transactions", "receipts", "interchain"}

type c11Ref struct {
	H      uint64            `json:"h"`
	Hashes map[uint64]string `json:"hashes"` // height -> block hash (reference chain up to h+3)
	DumpH  string            `json:"dump_h"`
	DumpH1 string            `json:"dump_h1"`
	Meta   map[uint64]string `json:"meta"` // height -> chain meta of the never-crashed replica at that height
}

func metaString(r *harness.Replica) string {
	m := r.L.GetChainMeta()
	return fmt.Sprintf("height=%d hash=%s interchain_tx_count=%d", m.Height, m.BlockHash, m.InterchainTxCount)
}

type c11Result struct {
	Opened  bool   `json:"opened"`
	Err     string `json:"err,omitempty"`
	Height  uint64 `json:"height"`
	Outcome string `json:"outcome"` // ok | open-error | wrong-height | head-unreadable | head-differs | version-mismatch | state-mismatch | block-lost | continuation-error | continuation-differs
	Detail  string `json:"detail,omitempty"`
}

func dumpNoJournal(r *harness.Replica) string {
	d := r.DumpState()
	var sb strings.Builder
	for _, k := range harness.SortedKeys(d) {
		if strings.HasPrefix(k, "journal-") {
			continue
		}
		sb.WriteString(fmt.Sprintf("%q=%q\n", k, string(d[k])))
	}
	return sb.String()
}

func loadHist(path string) (*history, error) {
	b, err := ioutil.ReadFile(path)
	if err != nil {
		return nil, err
	}
	h := &history{}
	return h, json.Unmarshal(b, h)
}

func histTxs(hb histBlock) ([]pb.Transaction, error) {
	raw, err := base64.StdEncoding.DecodeString(hb.Txs)
	if err != nil {
		return nil, err
	}
	txs := &pb.Transactions{}
	if len(raw) > 0 {
		if err := txs.Unmarshal(raw); err != nil {
			return nil, err
		}
	}
	return txs.Transactions, nil
}

// c11Exec: child that opens a directory and executes history blocks [from..to] (it may be killed by a hook).
func c11Exec(args []string) int {
	fs := flag.NewFlagSet("c11-exec", flag.ExitOnError)
	dir := fs.String("dir", "", "")
	histFile := fs.String("hist", "", "")
	from := fs.Uint64("fromh", 2, "")
	to := fs.Uint64("toh", 0, "")
	fs.Parse(args)
	hist, err := loadHist(*histFile)
	if err != nil {
		fmt.Println(err)
		return 3
	}
	r, err := harness.Open(*dir, hist.Opts)
	if err != nil {
		fmt.Println("open:", err)
		return 4
	}
	for h := *from; h <= *to; h++ {
		if r.Height()+1 != h {
			fmt.Println("height mismatch", r.Height(), h)
			return 5
		}
		txs, err := histTxs(hist.Blocks[h-2])
		if err != nil {
			return 3
		}
		if _, err := r.ExecBlock(txs, hist.Blocks[h-2].TS, nil); err != nil {
			fmt.Println("exec:", err)
			return 6
		}
	}
	r.Close()
	return 0
}

// c11Probe: child that opens a crash image and checks it against the reference.
func c11Probe(args []string) int {
	fs := flag.NewFlagSet("c11-probe", flag.ExitOnError)
	dir := fs.String("dir", "", "")
	histFile := fs.String("hist", "", "")
	refFile := fs.String("ref", "", "")
	out := fs.String("out", "", "")
	fs.Parse(args)
	res := &c11Result{Outcome: "ok"}
	write := func() int {
		b, _ := json.Marshal(res)
		ioutil.WriteFile(*out, b, 0644)
		return 0
	}
	hist, err := loadHist(*histFile)
	if err != nil {
		fmt.Println(err)
		return 3
	}
	ref := &c11Ref{}
	rb, _ := ioutil.ReadFile(*refFile)
	json.Unmarshal(rb, ref)
	res.Outcome = "crash-while-opening" // overwritten below; stays if the process dies in Open
	write()
	r, err := harness.Open(*dir, hist.Opts)
	if err != nil {
		res.Outcome, res.Err = "open-error", err.Error()
		return write()
	}
	res.Opened = true
	H := r.Height()
	res.Height = H
	if H != ref.H && H != ref.H+1 {
		res.Outcome, res.Detail = "wrong-height", fmt.Sprintf("opened at height %d, the commit in flight was %d -> %d", H, ref.H, ref.H+1)
		return write()
	}
	blk, err := r.L.GetBlock(H, true)
	if err != nil || blk == nil || blk.BlockHash == nil {
		res.Outcome, res.Detail = "head-unreadable", fmt.Sprintf("GetBlock(%d): %v", H, err)
		return write()
	}
	if blk.BlockHash.String() != ref.Hashes[H] {
		res.Outcome, res.Detail = "head-differs", fmt.Sprintf("head block %d has hash %s, reference %s", H, blk.BlockHash, ref.Hashes[H])
		return write()
	}
	if v := r.L.StateLedger.Version(); v != H {
		res.Outcome, res.Detail = "version-mismatch", fmt.Sprintf("chain height %d, state version %d", H, v)
		return write()
	}
	want := ref.DumpH
	if H == ref.H+1 {
		want = ref.DumpH1
	}
	if got := dumpNoJournal(r); got != want {
		res.Outcome, res.Detail = "state-mismatch", fmt.Sprintf("state store at height %d differs from the reference replica at that height", H)
		return write()
	}
	// the chain meta (height, head hash, interchain transaction count) is part of what a recovered node
	// has to agree on with one that never crashed
	if want, ok := ref.Meta[H]; ok && metaString(r) != want {
		res.Outcome, res.Detail = "chain-meta-mismatch", fmt.Sprintf("chain meta after recovery: %s; never-crashed replica at that height: %s", metaString(r), want)
		return write()
	}
	for h := uint64(1); h < H; h++ {
		b, err := r.L.GetBlock(h, false)
		if err != nil || b.BlockHash.String() != ref.Hashes[h] {
			res.Outcome, res.Detail = "block-lost", fmt.Sprintf("block %d below the head: %v", h, err)
			return write()
		}
	}
	// a block that was dropped by the recovery leaves nothing in the indexes: its transactions are unknown
	if H == ref.H && int(H)-1 < len(hist.Blocks) {
		if txs, err := histTxs(hist.Blocks[H-1]); err == nil {
			for i, tx := range txs {
				if m, err := r.L.GetTransactionMeta(tx.GetHash()); err == nil && m != nil && m.BlockHeight > H {
					res.Outcome, res.Detail = "stale-index-of-dropped-block", fmt.Sprintf("recovered at height %d, but transaction %d of the dropped block %d is still indexed (height %d, position %d)", H, i, H+1, m.BlockHeight, m.Index)
					return write()
				}
			}
		}
	}
	// continue with the remaining reference blocks
	res.Outcome = "crash-while-continuing"
	write()
	for h := H + 1; h <= ref.H+3; h++ {
		txs, err := histTxs(hist.Blocks[h-2])
		if err != nil {
			return 3
		}
		br, err := r.ExecBlock(txs, hist.Blocks[h-2].TS, nil)
		if err != nil {
			res.Outcome, res.Detail = "continuation-error", fmt.Sprintf("block %d: %v", h, err)
			return write()
		}
		if br.Block.BlockHash.String() != ref.Hashes[h] {
			res.Outcome, res.Detail = "continuation-differs", fmt.Sprintf("block %d executed after recovery has hash %s, the never-crashed replica %s", h, br.Block.BlockHash, ref.Hashes[h])
			return write()
		}
	}
	if want, ok := ref.Meta[ref.H+3]; ok && metaString(r) != want {
		res.Outcome, res.Detail = "chain-meta-mismatch-after-continuing", fmt.Sprintf("chain meta after recovery and %d more blocks: %s; never-crashed replica: %s", ref.H+3-H, metaString(r), want)
		return write()
	}
	if fs, _, _ := r.AuditChain(nil); len(fs) > 0 {
		res.Outcome, res.Detail = "chain-audit:"+fs[0].Sig, fmt.Sprintf("chain store audit after recovery and continuation: %s (%d findings)", fs[0].Detail, len(fs))
		return write()
	}
	res.Outcome = "ok"
	r.Close()
	return write()
}

func copyTree(src, dst string) error {
	os.MkdirAll(filepath.Dir(dst), 0755)
	out, err := exec.Command("cp", "-r", src, dst).CombinedOutput()
	if err != nil {
		return fmt.Errorf("cp: %v %s", err, string(out))
	}
	return nil
}

// compose builds a crash image: state dir, chain-index dir and each blockfile table taken from PRE / POST / MID.
func compose(img string, src map[string]string, state, chain string, bf [5]bool) error {
	os.RemoveAll(img)
	if err := os.MkdirAll(filepath.Join(img, "storage", "blockfile"), 0755); err != nil {
		return err
	}
	if err := copyTree(filepath.Join(src[state], "storage", "ledger"), filepath.Join(img, "storage", "ledger")); err != nil {
		return err
	}
	if err := copyTree(filepath.Join(src[chain], "storage", "blockchain"), filepath.Join(img, "storage", "blockchain")); err != nil {
		return err
	}
	for i, t := range bfTables {
		from := src["PRE"]
		if bf[i] {
			from = src["POST"]
		}
		files, _ := filepath.Glob(filepath.Join(from, "storage", "blockfile", t+".*"))
		for _, f := range files {
			b, err := ioutil.ReadFile(f)
			if err != nil {
				return err
			}
			if err := ioutil.WriteFile(filepath.Join(img, "storage", "blockfile", filepath.Base(f)), b, 0644); err != nil {
				return err
			}
		}
	}
	return nil
}

func crash11Workload(args []string) int {
	a := parseArgs("crash11", args, nil)
	w := vlog.Open(a.Out)
	self := os.Getenv("VERIF_SELF")
	if self == "" {
		self, _ = os.Executable()
	}
	heights := []uint64{12, 2, 23, 5, 24, 1, 0} // 0 = the commit of the genesis block itself
	for id := a.From; id < a.To; id++ {
		rng := vlog.CaseRand(a.Seed, "crash11", id)
		h := heights[id%len(heights)]
		opts := harness.Options{NoAudit: id%2 == 1}
		w.CaseStart(id, map[string]interface{}{"h": h})
		guard(w, "crash11", func() {
			base := filepath.Join(a.Work, fmt.Sprintf("c%d", id))
			os.MkdirAll(base, 0755)
			defer os.RemoveAll(base)
			seen := map[string]bool{}
			viol := func(sig, detail string, wit interface{}) {
				if seen[sig] {
					w.Count("repeat:"+sig, 1)
					return
				}
				seen[sig] = true
				w.Violation(sig, detail, wit)
			}
			// ---- the history: standard fixture + generated blocks, recorded from a generator replica
			hist := &history{Opts: opts}
			gen, err := harness.OpenWorld(filepath.Join(base, "gen"), opts)
			if err != nil {
				w.Inconclusive(err.Error())
				return
			}
			gen.Rec = func(txs []pb.Transaction, ts int64, local []bool) {
				raw, _ := (&pb.Transactions{Transactions: txs}).Marshal()
				hist.Blocks = append(hist.Blocks, histBlock{TS: ts, Txs: base64.StdEncoding.EncodeToString(raw), N: len(txs)})
			}
			if err := gen.BuildStandard(); err != nil {
				w.Inconclusive("fixture: " + err.Error())
				return
			}
			g := newMixGen(gen, rng)
			// the cases that would crash at height 23 crash at the last fixture block instead: block h+1 is then
			// the first generated one, and it creates accounts that get code and storage in the same block (an
			// EVM contract whose constructor stores a word, a WASM contract) - what a state roll-back of a block
			// has to undo completely
			creates := false
			if h == 23 {
				h, creates = gen.R.Height(), true
			}
			if h == 24 {
				// a crash in the middle of the generated history; the crash block carries an accepted request, so
				// that the chain meta's interchain transaction count moves with it
				h = gen.R.Height() + 2
			}
			// the case in the middle of the generated history also has the crash block write a key that holds a
			// present-but-empty value: a request with timeout 7 two blocks before, its receipt one block before (the
			// timeout list of that height is emptied, not removed), and the crash block's request due at the same height
			emptied := h == gen.R.Height()+2
			for gen.R.Height() < h+4 || gen.R.Height() < 27 {
				// (a pair of services the generator's own traffic does not use, so that nothing else touches that list)
				eFrom, eTo := harness.FullID(harness.ChainB, "s2"), harness.FullID(harness.ChainC, "s2")
				var scripted []pb.Transaction
				if emptied && gen.R.Height()+2 == h {
					scripted = append(scripted, g.ibtp(model.KReq, eFrom, eTo, 1, 7, nil))
				}
				if emptied && gen.R.Height()+1 == h {
					scripted = append(scripted, g.ibtp(model.KRcpSuccess, eFrom, eTo, 1, 0, nil))
				}
				if gen.R.Height() == h {
					g.forceReq = true
					if emptied {
						scripted = append(scripted, g.ibtp(model.KReq, eFrom, eTo, 2, 5, nil))
						// what the state store holds under the timeout list of height h+6 right before the crash block
						d := gen.R.DumpState()
						for k, v := range d {
							if strings.HasSuffix(k, fmt.Sprintf("timeout-%d", h+6)) {
								if len(v) == 0 {
									w.Count("crash_blocks_rewriting_an_emptied_timeout_list", 1)
								} else {
									w.Count("obs_timeout_list_not_emptied_before_crash_block", 1)
								}
							}
						}
					}
				}
				txs := append(scripted, g.genBlock(gen.R.Height()+1)...)
				// a storage key that is readable and at the same time a valid hex string (the journal hex-encodes
				// keys): set before the crash block, overwritten by it
				if h >= 20 && gen.R.Height()+1 == h {
					txs = append(txs, gen.BVM(harness.User(2), harness.AddrStore, "Set", pb.String("cafe"), pb.String("before")), gen.BVM(harness.User(2), harness.AddrStore, "Set", pb.String("00ff"), pb.String("before")))
				}
				if h >= 20 && gen.R.Height() == h {
					txs = append(txs, gen.BVM(harness.User(2), harness.AddrStore, "Set", pb.String("cafe"), pb.String("in the crash block")), gen.BVM(harness.User(2), harness.AddrStore, "Set", pb.String("00ff"), pb.String("in the crash block")))
					w.Count("crash_blocks_overwriting_hex_looking_keys", 1)
				}
				if creates && gen.R.Height() == h {
					ek := harness.EthAddr(harness.EthKey("eth-creator"))
					initCode := []byte{0x60, 0x2a, 0x60, 0xff, 0x55, // SSTORE(0xff, 0x2a): the slot key is 31 zero bytes and 0xff - not valid UTF-8
						0x60, 0x0a, 0x60, 0x11, 0x60, 0x00, 0x39, 0x60, 0x0a, 0x60, 0x00, 0xf3, 0x60, 0x2a, 0x60, 0x00, 0x52, 0x60, 0x20, 0x60, 0x00, 0xf3}
					txs = append(txs, gen.Transfer(harness.User(0), ek, "1000000000000"),
						gen.Eth("eth-creator", 0, 300000, big.NewInt(1000), big.NewInt(0), nil, initCode))
					if code, err := harness.RuleWasm("firstbyte"); err == nil {
						txs = append(txs, harness.XVMDeployTx(harness.User(1), gen.Nonce(harness.User(1).Addr), gen.Stamp(), code))
					}
					w.Count("crash_blocks_creating_accounts_with_code_and_storage", 1)
				}
				res, err := gen.Exec(txs...)
				if err != nil {
					w.Inconclusive(err.Error())
					return
				}
				if res.Height == h+1 && res.Meta != nil && len(res.Meta.Counter) > 0 {
					w.Count("crash_blocks_with_interchain_txs", 1)
				}
				g.absorb(txs, res)
			}
			gen.R.Close()
			histFile := filepath.Join(base, "hist.json")
			hb, _ := json.Marshal(hist)
			ioutil.WriteFile(histFile, hb, 0644)
			run := func(dir string, from, to uint64, env ...string) error {
				cmd := exec.Command(self, "c11-exec", "-dir", dir, "-hist", histFile, "-fromh", fmt.Sprint(from), "-toh", fmt.Sprint(to))
				cmd.Env = append(os.Environ(), env...)
				out, err := cmd.CombinedOutput()
				if err != nil {
					return fmt.Errorf("%v: %s", err, tail(string(out), 400))
				}
				return nil
			}
			// executing "block h+1": for h == 0 that is the genesis block, written when an empty directory is opened
			execNext := func(dir string, env ...string) error {
				if h == 0 {
					return run(dir, 2, 0, env...)
				}
				return run(dir, h+1, h+1, env...)
			}
			// ---- reference with the same close/reopen at h; PRE and POST images
			refDir := filepath.Join(base, "ref")
			if h == 0 {
				// PRE of the genesis commit: the stores exist and are empty (both writers stopped at their first step)
				if err := run(refDir, 2, 0, "VERIF_HOOKS=ledger.persist.state.begin=kill:1,ledger.persist.chain.begin=sleep:400000:1"); err == nil {
					w.Inconclusive("genesis: the kill hook was not reached")
					return
				}
			} else if err := run(refDir, 2, h); err != nil { // h == 1: runs genesis only
				w.Inconclusive("reference: " + err.Error())
				return
			}
			src := map[string]string{"PRE": filepath.Join(base, "PRE"), "POST": filepath.Join(base, "POST"), "MID": filepath.Join(base, "MID")}
			copyTree(refDir, src["PRE"])
			ref := &c11Ref{H: h, Hashes: map[uint64]string{}, Meta: map[uint64]string{}}
			if h > 0 {
				r, err := harness.Open(refDir, opts)
				if err != nil {
					w.Inconclusive(err.Error())
					return
				}
				ref.DumpH = dumpNoJournal(r)
				ref.Meta[h] = metaString(r)
				r.Close()
			}
			if err := execNext(refDir); err != nil {
				w.Inconclusive("reference: " + err.Error())
				return
			}
			copyTree(refDir, src["POST"])
			{
				r, _ := harness.Open(refDir, opts)
				ref.DumpH1 = dumpNoJournal(r)
				ref.Meta[h+1] = metaString(r)
				r.Close()
			}
			if err := run(refDir, h+2, h+3); err != nil {
				w.Inconclusive("reference: " + err.Error())
				return
			}
			{
				r, _ := harness.Open(refDir, opts)
				for x := uint64(1); x <= h+3; x++ {
					b, err := r.L.GetBlock(x, false)
					if err == nil {
						ref.Hashes[x] = b.BlockHash.String()
					}
				}
				ref.Meta[h+3] = metaString(r)
				r.Close()
			}
			refFile := filepath.Join(base, "ref.json")
			rb, _ := json.Marshal(ref)
			ioutil.WriteFile(refFile, rb, 0644)
			// MID: state batch committed, journals not yet pruned (only differs from POST when h+1 > 10)
			states := []string{"PRE", "POST"}
			copyTree(src["PRE"], src["MID"])
			if err := execNext(src["MID"], "VERIF_HOOKS=state.commit.after_batch=kill:1,ledger.persist.chain.begin=sleep:400000:1"); err != nil && h+1 > 10 {
				states = append(states, "MID")
			}
			probe := func(img string) *c11Result {
				outF := img + ".result.json"
				os.Remove(outF)
				cmd := exec.Command(self, "c11-probe", "-dir", img, "-hist", histFile, "-ref", refFile, "-out", outF)
				out, err := cmd.CombinedOutput()
				res := &c11Result{}
				b, rerr := ioutil.ReadFile(outF)
				if rerr != nil || json.Unmarshal(b, res) != nil {
					res.Outcome = "probe-failed"
				}
				if err != nil { // the probe process died: keep the phase it was in
					res.Detail = fmt.Sprintf("probe process died (%v): %s", err, tail(string(out), 900))
					if res.Outcome == "ok" {
						res.Outcome = "crash-at-exit"
					}
				}
				os.Remove(outF)
				return res
			}
			// ---- composed images (exhaustive over whole components)
			n := 0
			for _, st := range states {
				for _, ch := range []string{"PRE", "POST"} {
					for mask := 0; mask < 32; mask++ {
						var bf [5]bool
						cnt := 0
						for i := range bf {
							bf[i] = mask&(1<<uint(i)) != 0
							if bf[i] {
								cnt++
							}
						}
						bfc := "mixed"
						if cnt == 0 {
							bfc = "allPRE"
						} else if cnt == 5 {
							bfc = "allPOST"
						}
						img := filepath.Join(base, "img")
						if err := compose(img, src, st, ch, bf); err != nil {
							w.Inconclusive(err.Error())
							return
						}
						w.Step(fmt.Sprintf("image h=%d state=%s chain=%s blockfile=%05b", h, st, ch, mask))
						res := probe(img)
						n++
						w.Count("images_probed", 1)
						w.Count("outcome:"+res.Outcome, 1)
						class := fmt.Sprintf("%s/%s/%s", st, ch, bfc)
						w.SetAdd("image_classes", class+":"+res.Outcome)
						if res.Outcome != "ok" {
							viol(fmt.Sprintf("image:%s:%s", class, res.Outcome),
								fmt.Sprintf("crash image at height %d (state store %s, chain index %s, blockfile tables hashes,bodies,transactions,receipts,interchain = %05b of POST): %s %s %s", h, st, ch, mask, res.Outcome, res.Detail, res.Err),
								map[string]interface{}{"h": h, "state": st, "chain": ch, "blockfile_mask": mask})
						}
					}
				}
			}
			// ---- real kills at the hook points of the persist path
			kills := []string{
				"exec.block.before_persist=kill:1",
				"ledger.persist.state.begin=kill:1,ledger.persist.chain.begin=sleep:400000:1",
				"state.commit.before_batch=kill:1,ledger.persist.chain.begin=sleep:400000:1",
				"state.commit.after_batch=kill:1,ledger.persist.chain.begin=sleep:400000:1",
				"ledger.persist.state.end=kill:1,ledger.persist.chain.begin=sleep:400000:1",
				"ledger.persist.chain.begin=kill:1,ledger.persist.state.begin=sleep:400000:1",
				"chain.persist.before_bf=kill:1,ledger.persist.state.begin=sleep:400000:1,chain.persist.before_batch=sleep:400000:1",
				"chain.persist.after_bf=kill:1,ledger.persist.state.begin=sleep:400000:1,chain.persist.before_batch=sleep:400000:1",
				"chain.persist.before_batch=kill:1,ledger.persist.state.begin=sleep:400000:1,chain.persist.before_bf=sleep:400000:1",
				"chain.persist.after_batch=kill:1,ledger.persist.state.begin=sleep:400000:1,chain.persist.before_bf=sleep:400000:1",
				"chain.persist.after_bf=kill:1,chain.persist.before_batch=sleep:400000:1", // state done, blockfile done, index not
				"chain.persist.after_batch=kill:1,chain.persist.before_bf=sleep:400000:1", // state done, index done, blockfile not
				"ledger.persist.chain.end=kill:1",
				"exec.block.after_persist=kill:1",
			}
			if a.Tier != "thorough" && id >= len(heights) {
				kills = nil
			}
			for _, spec := range kills {
				img := filepath.Join(base, "kimg")
				os.RemoveAll(img)
				copyTree(src["PRE"], img)
				err := execNext(img, "VERIF_HOOKS="+spec)
				if err == nil {
					w.Count("kill_hook_not_reached", 1)
					w.SetAdd("kill_hooks_not_reached", strings.Split(spec, "=")[0])
					continue
				}
				w.Step("kill " + spec)
				res := probe(img)
				w.Count("kills_probed", 1)
				pt := strings.Split(spec, ",")[0]
				others := ""
				if strings.Contains(spec, ",") {
					others = "+" + strings.Join(strings.Split(spec, ",")[1:], "+")
					others = strings.NewReplacer("=sleep:400000:1", "-delayed").Replace(others)
				}
				name := strings.Split(pt, "=")[0] + others
				w.SetAdd("kill_outcomes", name+":"+res.Outcome)
				if res.Outcome != "ok" {
					viol(fmt.Sprintf("kill:%s:%s", name, res.Outcome),
						fmt.Sprintf("process killed at %s while committing block %d: after restart %s %s %s", spec, h+1, res.Outcome, res.Detail, res.Err),
						map[string]interface{}{"h": h, "hooks": spec})
				}
			}
			if id == a.From {
				w.Sample(map[string]interface{}{"case": id, "h": h, "images": n, "kill_specs": kills})
			}
			w.CaseDone(fmt.Sprintf("h%d|audit%v", h, !opts.NoAudit), true)
		})
	}
	w.End()
	return 0
}

func tail(s string, n int) string {
	if len(s) > n {
		return s[len(s)-n:]
	}
	return s
}

var _ = sort.Strings
