package main

import (
	"fmt"
	"os"
)

type workload func(args []string) int

var workloads = map[string]workload{}

func main() {
	if len(os.Args) < 2 {
		fmt.Fprintln(os.Stderr, "usage: vworker <workload> [flags]")
		os.Exit(2)
	}
	w, ok := workloads[os.Args[1]]
	if !ok {
		fmt.Fprintln(os.Stderr, "unknown workload", os.Args[1])
		os.Exit(2)
	}
	os.Exit(w(os.Args[2:]))
}
