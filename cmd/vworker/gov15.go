package main

import (
	"encoding/json"
	"fmt"
	"math/rand"
	"os"
	"sort"
	"strings"

	"github.com/Knetic/govaluate"
	"github.com/meshplus/bitxhub-model/pb"
	"github.com/meshplus/bitxhub/verif/harness"
	"github.com/meshplus/bitxhub/verif/vlog"
)

func init() { workloads["gov15"] = gov15Workload }

type govRole struct {
	ID     string `json:"id"`
	Weight uint64 `json:"weight"`
	Status string `json:"status"`
}

type govBallot struct {
	VoterAddr string `json:"voterAddr"`
	Approve   string `json:"approve"`
}

type govProposal struct {
	Id                     string               `json:"id"`
	Typ                    string               `json:"Typ"`
	Status                 string               `json:"status"`
	ObjId                  string               `json:"obj_id"`
	BallotMap              map[string]govBallot `json:"ballot_map"`
	ApproveNum             uint64               `json:"approve_num"`
	AgainstNum             uint64               `json:"against_num"`
	ElectorateList         []*govRole           `json:"electorate_list"`
	InitialElectorateNum   uint64               `json:"initial_electorate_num"`
	AvailableElectorateNum uint64               `json:"available_electorate_num"`
	EventType              string               `json:"event_type"`
	EndReason              string               `json:"end_reason"`
	IsSpecial              bool                 `json:"is_special"`
	IsSuperAdminVoted      bool                 `json:"is_super_admin_voted"`
	StrategyType           string               `json:"strategy_type"`
	StrategyExpression     string               `json:"strategy_expression"`
}

// specialProposal: which proposals need a super administrator's vote - role and strategy proposals, and every
// freeze, activation or logout (transcribed from the declared lists SpecialProposalProposalType /
// SpecialProposalEventType; the flag recorded in the proposal is what the code computed and is not trusted).
func specialProposal(p *govProposal) bool {
	return p.Typ == "role_mgr" || p.Typ == "proposal_strategy_mgr" || p.EventType == "freeze" || p.EventType == "activate" || p.EventType == "logout"
}

func evalStrategy(expr string, a, r, t uint64) (bool, error) {
	e, err := govaluate.NewEvaluableExpression(expr)
	if err != nil {
		return false, err
	}
	res, err := e.Evaluate(map[string]interface{}{"a": a, "r": r, "t": t})
	if err != nil {
		return false, err
	}
	b, ok := res.(bool)
	if !ok {
		return false, fmt.Errorf("expression does not yield a bool")
	}
	return b, nil
}

type g15 struct {
	w        *vlog.W
	world    *harness.World
	rng      *rand.Rand
	viol     func(sig, detail string)
	admins   []*harness.Key // candidates who may hold an admin role
	open     []string       // proposal ids not yet seen concluded
	final    map[string]string
	lastJSON map[string]string
	objOf    map[string]string
	hist     []string
	shape    map[string]bool
	stable   map[string]string // admin -> last settled role status seen
}

func (g *g15) proposal(id string) (*govProposal, string) {
	rc := g.world.R.Query(harness.AddrGov, "GetProposal", pb.String(id))
	if rc.Status != pb.Receipt_SUCCESS {
		return nil, ""
	}
	p := &govProposal{}
	if json.Unmarshal(rc.Ret, p) != nil {
		return nil, ""
	}
	return p, string(rc.Ret)
}

func (g *g15) roleStatus(addr string) (string, uint64) {
	rc := g.world.R.Query(harness.AddrRole, "GetRoleInfoById", pb.String(addr))
	if rc.Status != pb.Receipt_SUCCESS {
		return "", 0
	}
	r := &govRole{}
	json.Unmarshal(rc.Ret, r)
	return r.Status, r.Weight
}

func (g *g15) availableAdmins() map[string]bool {
	out := map[string]bool{}
	for _, k := range g.admins {
		if st, _ := g.roleStatus(k.Addr.String()); st == "available" {
			out[k.Addr.String()] = true
		}
	}
	return out
}

// transitionalAdmins: admins with a pending lifecycle operation; the statement does not say
// whether they count as available, so votes by them are not judged.
// Two transitional states are not ambiguous: "activating" is only reachable from frozen, and
// "logouting" reached from frozen - an admin who was unavailable before the pending operation and
// whose operation is not approved yet is unavailable. g.stable remembers the last settled status.
func (g *g15) transitionalAdmins() map[string]bool {
	out := map[string]bool{}
	if g.stable == nil {
		g.stable = map[string]string{}
	}
	for _, k := range g.admins {
		a := k.Addr.String()
		switch st, _ := g.roleStatus(a); st {
		case "freezing", "binding", "updating":
			out[a] = true
		case "activating":
			g.shape["admin:activating-is-unavailable"] = true
			g.w.Count("obs_admin_seen_activating", 1)
		case "logouting":
			if g.stable[a] == "frozen" {
				g.shape["admin:logouting-from-frozen-is-unavailable"] = true
				g.w.Count("obs_admin_seen_logouting_from_frozen", 1)
			} else {
				out[a] = true
			}
		case "available", "frozen", "forbidden", "unavailable":
			g.stable[a] = st
		}
	}
	return out
}

func (g *g15) objStatus(typ, obj string) string {
	var rc *pb.Receipt
	switch typ {
	case "service_mgr":
		rc = g.world.R.Query(harness.AddrService, "GetServiceInfo", pb.String(obj))
	case "appchain_mgr":
		rc = g.world.R.Query(harness.AddrAppchain, "GetAppchain", pb.String(obj))
	case "role_mgr":
		rc = g.world.R.Query(harness.AddrRole, "GetRoleInfoById", pb.String(obj))
	case "node_mgr":
		rc = g.world.R.Query(harness.AddrNode, "GetNode", pb.String(obj))
	default:
		return ""
	}
	if rc.Status != pb.Receipt_SUCCESS {
		return "<none>"
	}
	var s struct {
		Status string `json:"status"`
	}
	json.Unmarshal(rc.Ret, &s)
	return s.Status
}

// submit creates a new proposal through a manager contract; returns its id ("" if refused).
func (g *g15) submit() string {
	r, w := g.rng, g.world
	chain := []string{harness.ChainA, harness.ChainB, harness.ChainC}[r.Intn(3)]
	ca := harness.ChainAdmin(chain)
	adm := harness.AdminKey(0)
	svc := chain + ":" + []string{"s1", "s2"}[r.Intn(2)]
	var tx pb.Transaction
	var kind string
	pick := r.Intn(9)
	// a frozen admin asks (or is asked) to be activated or logged out: while that is pending the admin
	// is still unavailable
	var frozenAdmin *harness.Key
	for _, k := range g.admins {
		if st, _ := g.roleStatus(k.Addr.String()); st == "frozen" {
			frozenAdmin = k
		}
	}
	if frozenAdmin != nil && r.Intn(2) == 0 {
		pick = 100
	}
	switch pick {
	case 100:
		if r.Intn(2) == 0 {
			caller := adm
			if r.Intn(2) == 0 {
				caller = frozenAdmin
			}
			tx, kind = w.BVM(caller, harness.AddrRole, "ActivateRole", pb.String(frozenAdmin.Addr.String()), pb.String("r")), "role-lifecycle-of-frozen-admin"
		} else {
			tx, kind = w.BVM(frozenAdmin, harness.AddrRole, "LogoutRole", pb.String(frozenAdmin.Addr.String()), pb.String("r")), "role-lifecycle-of-frozen-admin"
		}
	case 0:
		tx, kind = w.BVM(ca, harness.AddrService, "UpdateService", pb.String(svc), pb.String(fmt.Sprintf("nm%d", r.Intn(1e6))), pb.String("i"), pb.String(""), pb.String("d"), pb.String("r")), "service-update"
	case 1:
		tx, kind = w.BVM(adm, harness.AddrService, "FreezeService", pb.String(svc), pb.String("r")), "service-freeze"
	case 2:
		tx, kind = w.BVM(ca, harness.AddrService, "ActivateService", pb.String(svc), pb.String("r")), "service-activate"
	case 3:
		tx, kind = w.BVM(ca, harness.AddrService, "LogoutService", pb.String(svc), pb.String("r")), "service-logout"
	case 4:
		tx, kind = w.BVM(adm, harness.AddrAppchain, "FreezeAppchain", pb.String(chain), pb.String("r")), "appchain-freeze"
	case 5:
		tx, kind = w.BVM(ca, harness.AddrAppchain, "ActivateAppchain", pb.String(chain), pb.String("r")), "appchain-activate"
	case 6:
		tx, kind = w.BVM(ca, harness.AddrAppchain, "UpdateAppchain", pb.String(chain), pb.String(fmt.Sprintf("nm-%s-%d", chain, r.Intn(1e6))), pb.String("d2"), pb.Bytes(nil), pb.String(ca.Addr.String()), pb.String("r")), "appchain-update"
	case 7:
		c := g.admins[len(g.admins)-1-r.Intn(2)]
		tx, kind = w.BVM(adm, harness.AddrRole, "RegisterRole", pb.String(c.Addr.String()), pb.String("governanceAdmin"), pb.String(""), pb.String("r")), "role-register"
	default:
		// the last genesis admin and the two candidates go through freeze / activate / logout, the
		// latter two also on their own behalf
		c := []*harness.Key{g.admins[len(g.admins)-1], g.admins[len(g.admins)-2], g.admins[len(g.admins)-3], g.admins[len(g.admins)-3]}[r.Intn(4)]
		op := []string{"FreezeRole", "FreezeRole", "ActivateRole", "LogoutRole"}[r.Intn(4)]
		caller := adm
		if op != "FreezeRole" && r.Intn(2) == 0 {
			caller = c
		}
		tx, kind = w.BVM(caller, harness.AddrRole, op, pb.String(c.Addr.String()), pb.String("r")), "role-lifecycle"
	}
	// who is definitely not an available admin right now (frozen, logged out, never registered): "eligible when
	// it was created" - none of them may appear in the new proposal's electorate
	notAvail := map[string]string{}
	for _, k := range g.admins {
		if st, _ := g.roleStatus(k.Addr.String()); st == "frozen" || st == "forbidden" || st == "unavailable" || st == "" {
			notAvail[k.Addr.String()] = st
		}
	}
	res, err := w.Exec(tx)
	if err != nil {
		return ""
	}
	rc := res.Receipts[0]
	if rc.Status == pb.Receipt_SUCCESS {
		if p, _ := g.proposal(harness.ProposalID(rc)); p != nil {
			g.w.Count("obs_electorates_checked", 1)
			for _, e := range p.ElectorateList {
				if st, bad := notAvail[e.ID]; bad {
					g.viol("electorate:unavailable-admin-listed", fmt.Sprintf("proposal %s lists %s in its electorate, whose role status was %q when the proposal was created", p.Id, e.ID, st))
				}
			}
		}
	}
	if rc.Status != pb.Receipt_SUCCESS {
		g.w.Count("submissions_refused", 1)
		g.hist = append(g.hist, fmt.Sprintf("h%d submit %s refused: %.60s", res.Height, kind, string(rc.Ret)))
		if debug {
			fmt.Fprintln(os.Stderr, g.hist[len(g.hist)-1], string(rc.Ret))
		}
		return ""
	}
	pid := harness.ProposalID(rc)
	g.shape[kind] = true
	g.w.Count("proposals_submitted", 1)
	g.hist = append(g.hist, fmt.Sprintf("h%d submit %s -> %s", res.Height, kind, pid))
	if debug && frozenAdmin != nil {
		st, _ := g.roleStatus(frozenAdmin.Addr.String())
		fmt.Fprintln(os.Stderr, g.hist[len(g.hist)-1], "frozen admin now:", st, "stable:", g.stable[frozenAdmin.Addr.String()])
	}
	return pid
}

// checkConclusion validates a proposal that was just observed concluded.
func (g *g15) checkConclusion(p *govProposal, availNow int) {
	if p.StrategyType != "SimpleMajority" {
		return
	}
	tally := func() (a, r uint64) {
		for _, b := range p.BallotMap {
			if b.Approve == "approve" {
				a++
			} else if b.Approve == "reject" {
				r++
			}
		}
		return
	}
	a, r := tally()
	if p.EndReason != "end of normal voting" {
		g.w.SetAdd("end_reasons", p.EndReason)
		return
	}
	g.w.SetAdd("end_reasons", p.EndReason)
	weight := map[string]uint64{}
	for _, e := range p.ElectorateList {
		weight[e.ID] = e.Weight
	}
	switch p.Status {
	case "approve":
		g.w.Count("concluded_approved_by_tally", 1)
		ok1, _ := evalStrategy(p.StrategyExpression, a, r, p.InitialElectorateNum)
		ok2, _ := evalStrategy(p.StrategyExpression, a, r, uint64(availNow))
		ok3, _ := evalStrategy(p.StrategyExpression, a, r, p.AvailableElectorateNum)
		if !ok1 && !ok2 && !ok3 {
			g.viol("approved-without-majority", fmt.Sprintf("proposal %s was approved by the tally with %d approvals / %d rejections of distinct eligible admins, but its strategy %q is false for t=%d (recorded total), t=%d (recorded available) and t=%d (available now)", p.Id, a, r, p.StrategyExpression, p.InitialElectorateNum, p.AvailableElectorateNum, availNow))
		}
		if p.IsSpecial || specialProposal(p) {
			super := false
			for v := range p.BallotMap {
				if weight[v] == 2 {
					super = true
				}
			}
			if !super {
				g.viol("special-concluded-without-super-admin", fmt.Sprintf("special proposal %s (%s on %s) concluded by vote but no weight-2 administrator has voted; ballots %v", p.Id, p.EventType, p.ObjId, p.BallotMap))
			}
		}
	case "reject":
		g.w.Count("concluded_rejected_by_tally", 1)
		// best case still possible under both readings
		best1 := uint64(0)
		if uint64(availNow) > r {
			best1 = uint64(availNow) - r
		}
		avail := g.availableAdmins()
		notVoted := uint64(0)
		for _, e := range p.ElectorateList {
			if _, v := p.BallotMap[e.ID]; !v && avail[e.ID] {
				notVoted++
			}
		}
		best2 := a + notVoted
		r1, _ := evalStrategy(p.StrategyExpression, best1, r, p.InitialElectorateNum)
		r2, _ := evalStrategy(p.StrategyExpression, best2, r, p.InitialElectorateNum)
		if r1 && r2 {
			g.viol("rejected-while-approval-reachable", fmt.Sprintf("proposal %s was rejected by the tally with %d approvals / %d rejections although approval was still reachable (%d available admins, %d of the electorate have not voted; strategy %q, t=%d)", p.Id, a, r, availNow, notVoted, p.StrategyExpression, p.InitialElectorateNum))
		}
		if p.IsSpecial || specialProposal(p) {
			super := false
			for v := range p.BallotMap {
				if weight[v] == 2 {
					super = true
				}
			}
			if !super {
				g.viol("special-concluded-without-super-admin", fmt.Sprintf("special proposal %s (%s on %s) was rejected by vote but no weight-2 administrator has voted", p.Id, p.EventType, p.ObjId))
			}
		}
	}
}

func gov15Workload(args []string) int {
	a := parseArgs("gov15", args, nil)
	w := vlog.Open(a.Out)
	exprs := []string{"a > 0.5 * t", "a >= t", "a >= 1", "a > 0.6 * t && r < 0.2 * t", "a >= 0.75 * t", "a > 0.5 * t && r < 0.5 * t"}
	for id := a.From; id < a.To; id++ {
		rng := vlog.CaseRand(a.Seed, "gov15", id)
		opts := harness.Options{NumAdmins: 4 + rng.Intn(4), Strategy: exprs[rng.Intn(len(exprs))], NoAudit: rng.Intn(2) == 0}
		if rng.Intn(3) == 0 {
			// one super administrator, everybody else ordinary: special proposals hang on that one vote
			opts.OrdinaryAdmins = opts.NumAdmins - 1
		}
		w.CaseStart(id, map[string]interface{}{"opts": opts})
		guard(w, "gov15", func() { gov15Case(w, a, id, rng, opts) })
	}
	w.End()
	return 0
}

func gov15Case(w *vlog.W, a *wargs, id int, rng *rand.Rand, opts harness.Options) {
	world, dir, err := newCaseWorldStd(a.Work, id, opts, "gov")
	defer os.RemoveAll(dir)
	if err != nil {
		w.Inconclusive(err.Error())
		w.CaseDone("fixture-error", false)
		return
	}
	defer func() { world.R.Close() }()
	g := &g15{w: w, world: world, rng: rng, final: map[string]string{}, lastJSON: map[string]string{}, objOf: map[string]string{}, shape: map[string]bool{}}
	seen := map[string]bool{}
	g.viol = func(sig, detail string) {
		if seen[sig] {
			return
		}
		seen[sig] = true
		h := g.hist
		if len(h) > 40 {
			h = h[len(h)-40:]
		}
		w.Violation(sig, detail, map[string]interface{}{"opts": opts, "history": h})
	}
	for i := 0; i < opts.NumAdmins; i++ {
		g.admins = append(g.admins, harness.AdminKey(i))
	}
	// two candidate weight-1 admins (funded users with dedicated keys)
	for i := 0; i < 2; i++ {
		c := harness.DetKey(fmt.Sprintf("candidate-admin-%d", i))
		g.admins = append(g.admins, c)
	}
	if _, err := world.Exec(world.Transfer(harness.User(0), g.admins[len(g.admins)-1].Addr, "100000000000000000"), world.Transfer(harness.User(0), g.admins[len(g.admins)-2].Addr, "100000000000000000")); err != nil {
		w.Inconclusive(err.Error())
		return
	}
	outsider := harness.User(3)
	objStatus := map[string]string{}
	objTyp := map[string]string{}
	steps := 60
	// every fifth case opens with a script: the electorate changes while a proposal is paused. X and Y are
	// the two candidates; P0 = freeze Y is open, X is frozen (approved), a logout of Y pauses P0, X is activated
	// (approved) during the pause, the logout is voted down (P0 comes back), then one approval and single
	// rejections on P0 - the tally must go by the electors available now, not by the count at the pause
	var script []func(events map[string]bool) bool
	if id%5 == 3 || id%10 == 8 {
		X, Y := g.admins[len(g.admins)-1], g.admins[len(g.admins)-2]
		S := harness.AdminKey(0)
		pids := map[string]string{}
		submit := func(name string, tx pb.Transaction, events map[string]bool) bool {
			res, err := world.Exec(tx)
			if err != nil || res.Receipts[0].Status != pb.Receipt_SUCCESS {
				g.hist = append(g.hist, fmt.Sprintf("script: %s refused", name))
				return false
			}
			pid := harness.ProposalID(res.Receipts[0])
			pids[name] = pid
			g.open = append(g.open, pid)
			if p, _ := g.proposal(pid); p != nil {
				g.objOf[pid] = p.ObjId
				objTyp[p.ObjId] = p.Typ
				events[p.ObjId] = true
			}
			g.hist = append(g.hist, fmt.Sprintf("h%d script: %s -> %s", res.Height, name, pid))
			w.Count("proposals_submitted", 1)
			return true
		}
		voteAll := func(name, ballot string, events map[string]bool) bool {
			if p, _ := g.proposal(pids[name]); p != nil {
				events[p.ObjId] = true
			}
			var txs []pb.Transaction
			for _, k := range g.admins { // the candidates too: refused while they are no admins
				txs = append(txs, world.BVM(k, harness.AddrGov, "Vote", pb.String(pids[name]), pb.String(ballot), pb.String("reason")))
			}
			res, err := world.Exec(txs...)
			if err == nil {
				g.hist = append(g.hist, fmt.Sprintf("h%d script: every admin votes %s on %s (%s)", res.Height, ballot, pids[name], name))
			}
			return err == nil
		}
		vote := func(name string, k *harness.Key, ballot string, events map[string]bool) bool {
			if p, _ := g.proposal(pids[name]); p != nil {
				events[p.ObjId] = true
			}
			res, err := world.Exec(world.BVM(k, harness.AddrGov, "Vote", pb.String(pids[name]), pb.String(ballot), pb.String("reason")))
			if err == nil {
				g.hist = append(g.hist, fmt.Sprintf("h%d script: vote %s by %s on %s (%s): %v", res.Height, ballot, k.Addr.String()[:8], pids[name], name, res.Receipts[0].Status))
				w.Count("votes_cast", 1)
			}
			return err == nil
		}
		role := func(m string, k *harness.Key) pb.Transaction {
			return world.BVM(S, harness.AddrRole, m, pb.String(k.Addr.String()), pb.String("r"))
		}
		reg := func(k *harness.Key) pb.Transaction {
			return world.BVM(S, harness.AddrRole, "RegisterRole", pb.String(k.Addr.String()), pb.String("governanceAdmin"), pb.String(""), pb.String("r"))
		}
		script = []func(map[string]bool) bool{
			func(e map[string]bool) bool {
				return submit("register X", reg(X), e) && voteAll("register X", "approve", e)
			},
			func(e map[string]bool) bool {
				return submit("register Y", reg(Y), e) && voteAll("register Y", "approve", e)
			},
			func(e map[string]bool) bool { return submit("P0 freeze Y", role("FreezeRole", Y), e) },
			func(e map[string]bool) bool {
				return submit("freeze X", role("FreezeRole", X), e) && voteAll("freeze X", "approve", e)
			},
			func(e map[string]bool) bool { return submit("logout Y", role("LogoutRole", Y), e) },
			func(e map[string]bool) bool {
				if p, _ := g.proposal(pids["P0 freeze Y"]); p != nil && p.Status == "paused" {
					g.shape["script:P0-paused"] = true
				}
				return submit("activate X", role("ActivateRole", X), e) && voteAll("activate X", "approve", e)
			},
			func(e map[string]bool) bool { return voteAll("logout Y", "reject", e) },
			func(e map[string]bool) bool {
				if p, _ := g.proposal(pids["P0 freeze Y"]); p != nil && p.Status == "proposed" {
					g.shape["script:P0-restored"] = true
					w.Count("scripts_with_restored_proposal", 1)
				}
				return vote("P0 freeze Y", S, "approve", e)
			},
		}
		for i := 1; i < opts.NumAdmins; i++ {
			k := harness.AdminKey(i)
			script = append(script, func(e map[string]bool) bool { return vote("P0 freeze Y", k, "reject", e) })
		}
		if id%10 == 8 {
			// the other script: a low-priority proposal (activate X) is paused by a high-priority one (logout X),
			// withdrawn by its sponsor while paused - it is concluded - and then the high-priority one is voted down:
			// the concluded proposal must stay what it is
			withdraw := func(name string, e map[string]bool) bool {
				if p, _ := g.proposal(pids[name]); p != nil {
					e[p.ObjId] = true
				}
				res, err := world.Exec(world.BVM(S, harness.AddrGov, "WithdrawProposal", pb.String(pids[name]), pb.String("reason")))
				if err == nil {
					g.hist = append(g.hist, fmt.Sprintf("h%d script: sponsor withdraws %s (%s): %v", res.Height, pids[name], name, res.Receipts[0].Status))
				}
				return err == nil
			}
			script = []func(map[string]bool) bool{
				func(e map[string]bool) bool {
					return submit("register X", reg(X), e) && voteAll("register X", "approve", e)
				},
				func(e map[string]bool) bool {
					return submit("freeze X", role("FreezeRole", X), e) && voteAll("freeze X", "approve", e)
				},
				func(e map[string]bool) bool { return submit("activate X", role("ActivateRole", X), e) },
				func(e map[string]bool) bool { return submit("logout X", role("LogoutRole", X), e) },
				func(e map[string]bool) bool { return withdraw("activate X", e) },
				func(e map[string]bool) bool {
					if p, _ := g.proposal(pids["activate X"]); p != nil && p.Status == "reject" {
						g.shape["script:paused-proposal-withdrawn"] = true
						w.Count("scripts_with_withdrawn_paused_proposal", 1)
					}
					return voteAll("logout X", "reject", e)
				},
			}
		}
	}
	for s := 0; s < steps; s++ {
		g.transitionalAdmins()      // keeps the record of the admins' last settled status current
		events := map[string]bool{} // objects with a governance event in this step
		var actDesc string
		x := rng.Intn(100)
		switch {
		case s < len(script):
			if !script[s](events) {
				script = nil
				w.Count("scripts_abandoned", 1)
			}
			actDesc = "script"
		case x < 22 || len(g.open) == 0:
			if pid := g.submit(); pid != "" {
				g.open = append(g.open, pid)
				if p, _ := g.proposal(pid); p != nil {
					g.objOf[pid] = p.ObjId
					objTyp[p.ObjId] = p.Typ
					events[p.ObjId] = true
				}
			}
			actDesc = "submit"
		case x < 90: // a vote
			all := append([]string{}, g.open...)
			for pid := range g.final {
				if rng.Intn(6) == 0 {
					all = append(all, pid) // votes on finished proposals
				}
			}
			pid := all[rng.Intn(len(all))]
			var voter *harness.Key
			switch y := rng.Intn(10); {
			case y < 7:
				voter = g.admins[rng.Intn(len(g.admins))]
				if opts.OrdinaryAdmins > 0 && rng.Intn(5) != 0 {
					// worlds with one super administrator: the ordinary ones vote first, most of the time - a special
					// proposal then has its majority long before the vote it has to wait for
					if p, _ := g.proposal(pid); p != nil && specialProposal(p) {
						voter = harness.AdminKey(1 + rng.Intn(opts.NumAdmins-1))
						w.Count("votes_by_ordinary_admins_on_special_proposals", 1)
					}
				}
				// an admin who is frozen with a pending activation / logout is the interesting voter
				for _, k := range g.admins {
					if st, _ := g.roleStatus(k.Addr.String()); (st == "activating" || st == "logouting" && g.stable[k.Addr.String()] == "frozen") && rng.Intn(3) != 0 {
						voter = k
						// preferably on a proposal whose electorate still lists this admin and on which it has not voted
						for _, cand := range g.open {
							if p, _ := g.proposal(cand); p != nil && p.Status == "proposed" {
								in := false
								for _, e := range p.ElectorateList {
									if e.ID == k.Addr.String() {
										in = true
									}
								}
								if _, voted := p.BallotMap[k.Addr.String()]; in && !voted {
									pid = cand
									g.w.Count("votes_by_unavailable_admin_on_own_electorate", 1)
									break
								}
							}
						}
					}
				}
			case y < 8:
				voter = outsider
			default:
				voter = harness.ChainAdmin(harness.ChainA)
			}
			ballot := []string{"approve", "approve", "approve", "reject", "reject", "garbage", ""}[rng.Intn(7)]
			if opts.Strategy == "a >= 1" && rng.Intn(10) < 6 {
				// under an expression that one approval satisfies, rejections pile up first most of the time: however
				// many there are, approval stays reachable as long as one elector has not voted
				ballot = "reject"
				w.Count("rejections_first_under_a_one_approval_strategy", 1)
			}
			pBefore, jsonBefore := g.proposal(pid)
			availBefore := g.availableAdmins()
			transBefore := g.transitionalAdmins()
			res, err := world.Exec(world.BVM(voter, harness.AddrGov, "Vote", pb.String(pid), pb.String(ballot), pb.String("reason")))
			if err != nil {
				g.viol("exec:error", err.Error())
				return
			}
			rc := res.Receipts[0]
			ok := rc.Status == pb.Receipt_SUCCESS
			w.Count("votes_cast", 1)
			g.hist = append(g.hist, fmt.Sprintf("h%d vote %s by %s on %s: %v %.50s", res.Height, ballot, voter.Addr.String()[:8], pid, rc.Status, string(rc.Ret)))
			if pBefore != nil {
				events[pBefore.ObjId] = true
				inElectorate, voted := false, false
				for _, e := range pBefore.ElectorateList {
					if e.ID == voter.Addr.String() {
						inElectorate = true
					}
				}
				_, voted = pBefore.BallotMap[voter.Addr.String()]
				legit := availBefore[voter.Addr.String()] && inElectorate && !voted && pBefore.Status == "proposed" && (ballot == "approve" || ballot == "reject")
				pAfter, jsonAfter := g.proposal(pid)
				if transBefore[voter.Addr.String()] {
					w.Count("votes_by_transitional_admin_not_judged", 1)
					if !ok && jsonAfter != jsonBefore {
						g.viol("refused-vote-changed-proposal:transitional-admin", fmt.Sprintf("refused vote by %s changed proposal %s", voter.Addr.String(), pid))
					}
				} else if !legit {
					w.Count("votes_illegitimate", 1)
					why := "garbage-ballot"
					switch {
					case !availBefore[voter.Addr.String()]:
						why = "non-admin-or-unavailable"
					case !inElectorate:
						why = "not-in-electorate"
					case voted:
						why = "repeat"
					case pBefore.Status != "proposed":
						why = "finished-proposal"
					}
					g.shape["refused:"+why] = true
					if ok {
						g.viol("illegitimate-vote-accepted:"+why, fmt.Sprintf("vote %q by %s on %s (status %s) was accepted although it is illegitimate (%s)", ballot, voter.Addr.String(), pid, pBefore.Status, why))
					}
					if jsonAfter != jsonBefore {
						g.viol("refused-vote-changed-proposal:"+why, fmt.Sprintf("refused vote (%s) by %s changed proposal %s:\n before %s\n after  %s", why, voter.Addr.String(), pid, jsonBefore, jsonAfter))
					}
				} else {
					w.Count("votes_legitimate", 1)
					if !ok {
						// the statement only says which votes must be refused; a refused legitimate vote is
						// recorded as an observation (seen: 'the proposal may not pass' for reject votes under
						// expressions with an r-term), not judged
						w.Count("obs_legitimate_votes_refused", 1)
						w.SetAdd("legitimate_vote_refusals", fmt.Sprintf("%.90s", string(rc.Ret)))
						if jsonAfter != jsonBefore {
							g.viol("refused-vote-changed-proposal:legitimate", fmt.Sprintf("refused vote by %s changed proposal %s", voter.Addr.String(), pid))
						}
					} else if pAfter != nil {
						if len(pAfter.BallotMap) != len(pBefore.BallotMap)+1 || pAfter.BallotMap[voter.Addr.String()].Approve != ballot {
							g.viol("vote-not-recorded-once", fmt.Sprintf("after the accepted vote of %s proposal %s holds ballots %v", voter.Addr.String(), pid, pAfter.BallotMap))
						}
					}
				}
			}
			actDesc = "vote"
		case x < 95 && len(g.final) > 0 && rng.Intn(3) == 0: // the sponsor withdraws a proposal that is concluded already
			// preferably one whose object is under another, still open proposal: the object is in a transitional
			// status then, which is when a second "rejected" effect would be accepted by its manager
			var fin, pref []string
			for pid := range g.final {
				fin = append(fin, pid)
			}
			sort.Strings(fin)
			for _, pid := range fin {
				for _, o := range g.open {
					if g.objOf[o] != "" && g.objOf[o] == g.objOf[pid] {
						pref = append(pref, pid)
					}
				}
			}
			pid := fin[rng.Intn(len(fin))]
			if len(pref) > 0 && rng.Intn(4) != 0 {
				pid = pref[rng.Intn(len(pref))]
				w.Count("withdrawals_of_concluded_proposals_with_another_open_on_the_object", 1)
			}
			sponsor := strings.SplitN(pid, "-", 2)[0]
			var k *harness.Key
			for _, c := range []*harness.Key{harness.ChainAdmin(harness.ChainA), harness.ChainAdmin(harness.ChainB), harness.ChainAdmin(harness.ChainC), harness.AdminKey(0)} {
				if c.Addr.String() == sponsor {
					k = c
				}
			}
			if k == nil {
				k = outsider
			}
			obj := g.objOf[pid]
			stBefore := ""
			if typ, ok := objTyp[obj]; ok {
				stBefore = g.objStatus(typ, obj)
			}
			res, err := world.Exec(world.BVM(k, harness.AddrGov, "WithdrawProposal", pb.String(pid), pb.String("reason")))
			w.Count("withdrawals_of_concluded_proposals", 1)
			if err == nil {
				g.hist = append(g.hist, fmt.Sprintf("h%d withdraw of the concluded %s by %s: %v", res.Height, pid, k.Addr.String()[:8], res.Receipts[0].Status))
				if typ, ok := objTyp[obj]; ok {
					if st := g.objStatus(typ, obj); st != stBefore {
						g.viol("concluded-proposal-took-effect-again", fmt.Sprintf("withdrawing the concluded proposal %s moved its object %s from %s to %s", pid, obj, stBefore, st))
						objStatus[obj] = st
					}
				}
			}
			actDesc = "withdraw-concluded"
		case x < 95 && len(g.open) > 0: // withdraw by sponsor / by someone else
			pid := g.open[rng.Intn(len(g.open))]
			sponsor := strings.SplitN(pid, "-", 2)[0]
			var k *harness.Key
			for _, c := range []*harness.Key{harness.ChainAdmin(harness.ChainA), harness.ChainAdmin(harness.ChainB), harness.ChainAdmin(harness.ChainC), harness.AdminKey(0)} {
				if c.Addr.String() == sponsor {
					k = c
				}
			}
			if k == nil || rng.Intn(3) == 0 {
				k = outsider
			}
			res, err := world.Exec(world.BVM(k, harness.AddrGov, "WithdrawProposal", pb.String(pid), pb.String("reason")))
			if err == nil {
				g.hist = append(g.hist, fmt.Sprintf("h%d withdraw %s by %s: %v", res.Height, pid, k.Addr.String()[:8], res.Receipts[0].Status))
				if res.Receipts[0].Status == pb.Receipt_SUCCESS {
					g.shape["withdrawn"] = true
				}
			}
			events[g.objOf[pid]] = true
			actDesc = "withdraw"
		default:
			world.Exec(world.Transfer(harness.User(1), harness.User(2).Addr, "1"))
			actDesc = "idle"
		}
		_ = actDesc
		// ---- after every block: all proposals
		availNow := len(g.availableAdmins())
		var stillOpen []string
		for _, pid := range g.open {
			p, js := g.proposal(pid)
			if p == nil {
				continue
			}
			// tally consistency
			var na, nr uint64
			inEl := map[string]bool{}
			for _, e := range p.ElectorateList {
				inEl[e.ID] = true
			}
			for v, b := range p.BallotMap {
				if b.Approve == "approve" {
					na++
				} else if b.Approve == "reject" {
					nr++
				}
				if !inEl[v] {
					g.viol("ballot-from-outside-electorate", fmt.Sprintf("proposal %s holds a ballot of %s who is not in its electorate", pid, v))
				}
			}
			w.Count("obs_proposal_reads", 1)
			if na != p.ApproveNum || nr != p.AgainstNum {
				g.viol("tally-mismatch", fmt.Sprintf("proposal %s: tallies (%d,%d) but ballots give (%d,%d)", pid, p.ApproveNum, p.AgainstNum, na, nr))
			}
			if p.Status == "approve" || p.Status == "reject" {
				g.checkConclusion(p, availNow)
				g.final[pid] = js
				w.SetAdd("conclusions", p.Typ+":"+p.EventType+":"+p.Status)
				events[p.ObjId] = true
			} else {
				stillOpen = append(stillOpen, pid)
			}
			g.lastJSON[pid] = js
		}
		g.open = stillOpen
		// ---- finality
		for pid, js := range g.final {
			if _, now := g.proposal(pid); now != js {
				w.Count("obs_finality_checks", 1)
				g.viol("concluded-proposal-changed", fmt.Sprintf("concluded proposal %s changed afterwards:\n was %s\n now %s", pid, js, now))
				g.final[pid] = now
			} else {
				w.Count("obs_finality_checks", 1)
			}
		}
		// ---- governed objects change only in blocks with a governance event on them (or their chain)
		for obj, typ := range objTyp {
			st := g.objStatus(typ, obj)
			if old, ok := objStatus[obj]; ok && old != st {
				chainEvent := false
				for e := range events {
					if e != "" && (strings.HasPrefix(obj, e+":") || e == obj) {
						chainEvent = true
					}
				}
				if !chainEvent {
					g.viol("object-changed-without-governance-event", fmt.Sprintf("%s %s changed status %s -> %s in a block without submission, vote, conclusion or withdrawal concerning it", typ, obj, old, st))
				}
				w.SetAdd("object_status_edges", typ+":"+old+"->"+st)
			}
			objStatus[obj] = st
		}
	}
	var sh []string
	for k := range g.shape {
		sh = append(sh, k)
	}
	sort.Strings(sh)
	if id == a.From {
		h := g.hist
		if len(h) > 30 {
			h = h[:30]
		}
		w.Sample(map[string]interface{}{"case": id, "opts": opts, "history": h})
	}
	w.CaseDone(fmt.Sprintf("n%d|%s|%s", opts.NumAdmins, opts.Strategy, strings.Join(sh, ",")), len(g.final) > 0)
}
