package main

import (
	"bytes"
	"encoding/binary"
	"encoding/json"
	"fmt"
	"math/big"
	"math/rand"
	"os"
	"path/filepath"
	"sort"
	"strings"

	ethcrypto "github.com/ethereum/go-ethereum/crypto"
	"github.com/meshplus/bitxhub-model/pb"
	"github.com/meshplus/bitxhub/verif/harness"
	"github.com/meshplus/bitxhub/verif/model"
	"github.com/meshplus/bitxhub/verif/vlog"
	ledger2 "github.com/meshplus/eth-kit/ledger"
)

func init() { workloads["proof03"] = proof03Workload }

const hubID = "9999"

func validatorKey(i int) *harness.Key { return harness.DetKey(fmt.Sprintf("hub2-validator-%d", i)) }

// registerHub registers the remote BitXHub (chain id 9999, 4 validators) as a relay-chain appchain.
func registerHub(w *harness.World) error {
	var addrs []string
	for i := 0; i < 4; i++ {
		addrs = append(addrs, validatorKey(i).Addr.String())
	}
	tr, _ := json.Marshal(map[string][]string{"addresses": addrs})
	return w.RegisterAppchain(harness.ChainAdmin("hub2"), hubID, "relaychain", "0x00000000000000000000000000000000000000a2", tr)
}

// buildHubFixture = extended fixture + a registered remote BitXHub (chain id 9999, 4 validators).
func buildHubFixture(dir string, o harness.Options) error {
	w, err := harness.BuildExtended(dir, o)
	if err != nil {
		return err
	}
	defer w.R.Close()
	if err := registerHub(w); err != nil {
		return err
	}
	// spare rules for chainW's rule history
	for _, kind := range []string{"never", "firstbyte"} {
		addr, err := w.DeployRule(harness.ChainAdmin("chainW"), kind)
		if err != nil {
			return err
		}
		if err := os.WriteFile(filepath.Join(dir, "rule-"+kind+".addr"), []byte(addr), 0644); err != nil {
			return err
		}
		rc, err := w.Call(harness.ChainAdmin("chainW"), harness.AddrRule, "RegisterRule", pb.String("chainW"), pb.String(addr), pb.String("url"))
		if err != nil || rc.Status != pb.Receipt_SUCCESS {
			return fmt.Errorf("RegisterRule %s: %v %s", kind, err, string(rc.Ret))
		}
	}
	return nil
}

// interHubHash reimplements the digest the validators of a remote hub sign (from||to||index||type||payload.hash||status, keccak256).
func interHubHash(ib *pb.IBTP, status pb.TransactionStatus) []byte {
	var data []byte
	be := func(v uint64) []byte { b := make([]byte, 8); binary.BigEndian.PutUint64(b, v); return b }
	data = append(data, []byte(ib.From)...)
	data = append(data, []byte(ib.To)...)
	data = append(data, be(ib.Index)...)
	data = append(data, be(uint64(ib.Type))...)
	pd := &pb.Payload{}
	pd.Unmarshal(ib.Payload)
	data = append(data, pd.Hash...)
	data = append(data, be(uint64(status))...)
	return ethcrypto.Keccak256(data)
}

type p03 struct {
	w      *vlog.W
	world  *harness.World
	rng    *rand.Rand
	m      *model.Ix
	rule   map[string]string // chain -> rule kind currently bound as master ("" = none / not usable)
	viol   func(sig, detail string)
	dir    string
	shape  map[string]bool
	blocks []string
	// the votes that decide a rule change, held back: they are handed to the executor together with the next
	// block of IBTPs, without waiting for their commit (consensus runs ahead of execution)
	deferred []pb.Transaction
}

// flush executes a held-back block of votes on its own.
func (p *p03) flush() {
	if p.deferred != nil {
		d := p.deferred
		p.deferred = nil
		p.world.Exec(d...)
	}
}

func (p *p03) ruleVerdict(chain string, proof []byte) bool {
	switch p.rule[chain] {
	case "happy":
		return true
	case "firstbyte":
		return len(proof) > 0 && proof[0] == 1
	}
	return false // never, trap, burn, none, unknown chain
}

type p03Tx struct {
	tx     pb.Transaction
	desc   string
	isIBTP bool
	valid  bool // proof verifies for the origin
	accept bool // model verdict (valid && protocol accepts)
	mi     model.IxIBTP
	alt    bool // alternative entry point attempt
}

func (p *p03) mkLocal() p03Tx {
	r := p.rng
	pier := harness.User(r.Intn(3))
	type pairT struct{ from, to string }
	pairs := []pairT{
		{harness.FullID(harness.ChainA, "s1"), harness.FullID(harness.ChainB, "s1")},
		{harness.FullID("chainW", "s1"), harness.FullID(harness.ChainB, "s1")},
		{harness.FullID(harness.ChainA, "s2"), harness.FullID("chainW", "s1")},
		{harness.FullID("chainT", "s1"), harness.FullID(harness.ChainB, "s2")},
		{harness.FullID("chainU", "s1"), harness.FullID(harness.ChainB, "s2")},
		{harness.FullID("nochain", "s1"), harness.FullID(harness.ChainB, "s2")},
	}
	pr := pairs[r.Intn(len(pairs))]
	if r.Intn(3) != 0 { // bias towards the rule-governed chains
		pr = pairs[1+r.Intn(2)]
	}
	k := pr.from + "|" + pr.to
	var req, rcp uint64
	if pp := p.m.Pairs[k]; pp != nil {
		req, rcp = pp.Req, pp.Rcp
	}
	kind := model.KReq
	idx := req + 1
	if rcp < req && r.Intn(2) == 0 {
		kind = []string{model.KRcpSuccess, model.KRcpFailure}[r.Intn(2)]
		idx = rcp + 1
	}
	typ := map[string]pb.IBTP_Type{model.KReq: pb.IBTP_INTERCHAIN, model.KRcpSuccess: pb.IBTP_RECEIPT_SUCCESS, model.KRcpFailure: pb.IBTP_RECEIPT_FAILURE}[kind]
	ib := harness.MkIBTP(pr.from, pr.to, idx, typ, 0)
	origin := chainOf(pr.from)
	if kind != model.KReq {
		origin = chainOf(pr.to)
	}
	// proof variants
	proof := []byte{byte(r.Intn(2)), byte(r.Intn(256)), byte(r.Intn(256))}
	var ph []byte
	pk := "proof"
	hashOK := true
	switch r.Intn(8) {
	case 0:
		proof = nil
		pk = "absent"
		hashOK = false
	case 1:
		ph = []byte("0123456789abcdef0123456789abcdef")
		pk = "hash-mismatch"
		hashOK = false
	case 2:
		proof = []byte{}
		pk = "empty"
	}
	valid := hashOK && p.ruleVerdict(origin, proof)
	if pk == "empty" && proof != nil && len(proof) == 0 {
		// an empty proof reaches the verifier as nil after the wire round trip: absent
		valid = false
	}
	tx := harness.IBTPTx(pier, p.world.Nonce(pier.Addr), p.world.Stamp(), ib, proof, ph)
	usable := p.rule[chainOf(pr.to)] != "" || chainOf(pr.to) == harness.ChainB
	mi := model.IxIBTP{From: pr.from, To: pr.to, Index: idx, Kind: kind, DstUsable: usable, ProofOK: valid}
	return p03Tx{tx: tx, isIBTP: true, valid: valid, mi: mi,
		desc: fmt.Sprintf("%s %s->%s #%d origin=%s rule=%s proof=%s[%x]", kind, pr.from, pr.to, idx, origin, p.rule[origin], pk, proof)}
}

func (p *p03) mkInterHub() p03Tx {
	r := p.rng
	pier := harness.User(r.Intn(3))
	from, to := hubID+":cX:sY", harness.FullID(harness.ChainB, "s1")
	k := from + "|" + to
	var req uint64
	if pp := p.m.Pairs[k]; pp != nil {
		req = pp.Req
	}
	idx := req + 1
	pd := &pb.Payload{Content: []byte("content"), Hash: []byte(fmt.Sprintf("payload-hash-%d", idx))}
	pdb, _ := pd.Marshal()
	ib := &pb.IBTP{From: from, To: to, Index: idx, Type: pb.IBTP_INTERCHAIN, Payload: pdb}
	status := pb.TransactionStatus_BEGIN
	digest := interHubHash(ib, status)
	// choose signers
	var sigs [][]byte
	distinct := map[int]bool{}
	n := r.Intn(5)
	var names []string
	for i := 0; i < n; i++ {
		switch r.Intn(6) {
		case 0: // unregistered signer
			s, _ := harness.DetKey("not-a-validator").Priv.Sign(digest)
			sigs = append(sigs, s)
			names = append(names, "unregistered")
		case 1: // garbage
			sigs = append(sigs, []byte("garbage-signature"))
			names = append(names, "garbage")
		case 2: // valid signer over another status
			v := r.Intn(4)
			s, _ := validatorKey(v).Priv.Sign(interHubHash(ib, pb.TransactionStatus_SUCCESS))
			sigs = append(sigs, s)
			names = append(names, fmt.Sprintf("v%d-wrong-status", v))
		case 3: // a validator's signature together with its other encoding (r, N-s, v^1): still one validator
			v := r.Intn(3)
			s, _ := validatorKey(v).Priv.Sign(digest)
			sigs = append(sigs, s)
			if t := sigTwin(s); t != nil {
				sigs = append(sigs, t)
			}
			distinct[v] = true
			names = append(names, fmt.Sprintf("v%d+twin", v))
		default:
			v := r.Intn(3) // few validators: duplicates are likely
			s, _ := validatorKey(v).Priv.Sign(digest)
			sigs = append(sigs, s)
			distinct[v] = true
			names = append(names, fmt.Sprintf("v%d", v))
		}
	}
	bp := &pb.BxhProof{TxStatus: status, MultiSign: sigs}
	proof, _ := bp.Marshal()
	valid := len(distinct) > (4-1)/3
	if len(proof) == 0 {
		valid = false
	}
	// the proof bytes must also hash to the value committed inside the IBTP, whoever signed them
	var ph []byte
	hk := "hash-ok"
	switch r.Intn(6) {
	case 0:
		ph, hk, valid = []byte("0123456789abcdef0123456789abcdef"), "hash-mismatch", false
	case 1:
		ph, hk, valid = []byte{}, "hash-empty", false
	}
	tx := harness.IBTPTx(pier, p.world.Nonce(pier.Addr), p.world.Stamp(), ib, proof, ph)
	mi := model.IxIBTP{From: from, To: to, Index: idx, Kind: model.KReq, DstUsable: true, ProofOK: valid}
	return p03Tx{tx: tx, isIBTP: true, valid: valid, mi: mi, desc: fmt.Sprintf("interhub req #%d signers=%v distinct-valid=%d %s", idx, names, len(distinct), hk)}
}

// mkAlt: an external account tries to make the interchain contract process a victim's IBTP
// through a plain contract invocation (no proof is ever looked at on these paths).
func (p *p03) mkAlt() p03Tx {
	r := p.rng
	k := []*harness.Key{harness.User(3), harness.ChainAdmin(harness.ChainC), harness.AdminKey(1)}[r.Intn(3)]
	from, to := harness.FullID(harness.ChainA, "s1"), harness.FullID(harness.ChainB, "s1")
	var req uint64
	if pp := p.m.Pairs[from+"|"+to]; pp != nil {
		req = pp.Req
	}
	ib := harness.MkIBTP(from, to, req+1, pb.IBTP_INTERCHAIN, 0)
	c := &pb.Content{Func: "f", Args: [][]byte{[]byte("a")}}
	ib.Payload, _ = c.Marshal()
	raw, _ := ib.Marshal()
	var tx pb.Transaction
	var d string
	switch r.Intn(4) {
	case 0:
		tx, d = p.world.BVM(k, harness.AddrInterchain, "HandleIBTPData", pb.Bytes(raw)), "Interchain.HandleIBTPData(next request of victim)"
	case 1:
		if r.Intn(2) == 0 {
			// in the name of a service of the other (registered) BitXHub, towards a contract of this relay chain
			f, t := forgedHubPair()
			tx, d = p.world.BVM(k, harness.AddrBroker, "EmitInterchain", pb.String(f), pb.String(t), pb.String("f,cb,rb"), pb.String("x"), pb.String("y"), pb.String("z")), "InterBroker.EmitInterchain(service of the other hub -> contract of this hub)"
			break
		}
		tx, d = p.world.BVM(k, harness.AddrBroker, "EmitInterchain", pb.String(from), pb.String(to), pb.String("f,cb,rb"), pb.String("x"), pb.String("y"), pb.String("z")), "InterBroker.EmitInterchain(victim from,to)"
	case 2:
		tx, d = p.world.BVM(k, harness.AddrBroker, "InvokeInterchain", pb.Bytes(raw)), "InterBroker.InvokeInterchain(ibtp)"
	default:
		tx, d = p.world.BVM(k, harness.AddrBroker, "InvokeReceipt", pb.Bytes(raw)), "InterBroker.InvokeReceipt(ibtp)"
	}
	return p03Tx{tx: tx, alt: true, desc: "alt:" + d}
}

// interHubRequestTx builds a request that arrives from the registered remote BitXHub with a proof that
// verifies: two distinct validators of that hub signed it.
func interHubRequestTx(w *harness.World, pier *harness.Key, from, to string, idx uint64) pb.Transaction {
	pd := &pb.Payload{Content: []byte("content"), Hash: []byte(fmt.Sprintf("payload-hash-%d", idx))}
	pdb, _ := pd.Marshal()
	ib := &pb.IBTP{From: from, To: to, Index: idx, Type: pb.IBTP_INTERCHAIN, Payload: pdb}
	digest := interHubHash(ib, pb.TransactionStatus_BEGIN)
	var sigs [][]byte
	for v := 0; v < 2; v++ {
		s, _ := validatorKey(v).Priv.Sign(digest)
		sigs = append(sigs, s)
	}
	proof, _ := (&pb.BxhProof{TxStatus: pb.TransactionStatus_BEGIN, MultiSign: sigs}).Marshal()
	return harness.IBTPTx(pier, w.Nonce(pier.Addr), w.Stamp(), ib, proof, nil)
}

var secp256k1N, _ = new(big.Int).SetString("FFFFFFFFFFFFFFFFFFFFFFFFFFFFFFFEBAAEDCE6AF48A03BBFD25E8CD0364141", 16)

// sigTwin returns the other valid encoding (r, N-s, v^1) of a 65 byte [r||s||v] secp256k1 signature: a different
// byte string that recovers to the same signer, computable by anyone.
func sigTwin(sig []byte) []byte {
	if len(sig) != 65 {
		return nil
	}
	sv := new(big.Int).Sub(secp256k1N, new(big.Int).SetBytes(sig[32:64]))
	out := make([]byte, 65)
	copy(out[:32], sig[:32])
	sb := sv.Bytes()
	copy(out[64-len(sb):64], sb)
	out[64] = sig[64] ^ 1
	return out
}

// forgedHubPair: a service of the registered remote BitXHub as source, a contract hosted on this relay chain as
// destination - what the broker would emit if it let anybody speak for the other hub.
func forgedHubPair() (string, string) {
	return hubID + ":chainX:svc", harness.BxhID + ":" + harness.BxhID + ":" + harness.AddrStore.String()
}

func (p *p03) govBlock(txs ...pb.Transaction) ([]*pb.Receipt, error) {
	p.flush()
	res, err := p.world.Exec(txs...)
	if err != nil {
		return nil, err
	}
	return res.Receipts, nil
}

// changeRule drives chainW's master rule to another rule double through the governance flow; with
// approve=false the proposal is voted down, after which the old master rule has to decide again - also
// when the rejected candidate ("happy": the built-in rule every chain has first in its rule list) would
// accept what the master refuses.
func (p *p03) changeRule(kind string, approve bool) {
	addr := "0x00000000000000000000000000000000000000a2" // validator.HappyRuleAddr
	if kind != "happy" {
		addrB, err := os.ReadFile(filepath.Join(p.dir, "rule-"+kind+".addr"))
		if err != nil {
			return
		}
		addr = string(addrB)
	}
	ca := harness.ChainAdmin("chainW")
	rcs, err := p.govBlock(p.world.BVM(ca, harness.AddrRule, "UpdateMasterRule", pb.String("chainW"), pb.String(addr), pb.String("reason")))
	if err != nil || rcs[0].Status != pb.Receipt_SUCCESS {
		p.w.Count("rule_change_refused", 1)
		return
	}
	pid := harness.ProposalID(rcs[0])
	was := p.rule["chainW"]
	p.rule["chainW"] = "" // pending: no rule is 'available'
	if !approve {
		if _, err := p.world.VoteAll(pid, p.world.Votes, "reject"); err != nil {
			return
		}
		// a rejected update leaves the appchain paused (frozen); its admin activates it again
		p.rule["chainW"] = ""
		rcs, err := p.govBlock(p.world.BVM(ca, harness.AddrAppchain, "ActivateAppchain", pb.String("chainW"), pb.String("reason")))
		if err != nil || rcs[0].Status != pb.Receipt_SUCCESS {
			p.w.Count("activation_after_rejected_rule_change_refused", 1)
			return
		}
		if _, err := p.world.VoteAll(harness.ProposalID(rcs[0]), p.world.Votes, "approve"); err != nil {
			return
		}
		p.rule["chainW"] = was
		p.shape["rule-change-to-"+kind+"-rejected"] = true
		p.w.Count("rule_changes_rejected", 1)
		return
	}
	if p.rng.Intn(2) == 0 {
		// the deciding votes are not executed now: they go to the executor back to back with the next block. Proofs
		// are checked against the state after the previous block, so that block is judged under the new rule
		for i := 0; i < p.world.Votes; i++ {
			p.deferred = append(p.deferred, p.world.BVM(harness.AdminKey(i), harness.AddrGov, "Vote", pb.String(pid), pb.String("approve"), pb.String("reason")))
		}
		p.shape["rule-change-decided-in-the-block-before-the-ibtps"] = true
	} else if _, err := p.world.VoteAll(pid, p.world.Votes, "approve"); err != nil {
		return
	}
	p.rule["chainW"] = kind
	p.shape["rule-changed-to-"+kind] = true
	p.w.Count("rule_changes", 1)
}

func (p *p03) logoutChain(chain string) {
	ca := harness.ChainAdmin(chain)
	rcs, err := p.govBlock(p.world.BVM(ca, harness.AddrAppchain, "LogoutAppchain", pb.String(chain), pb.String("reason")))
	if err != nil || rcs[0].Status != pb.Receipt_SUCCESS {
		return
	}
	if _, err := p.world.VoteAll(harness.ProposalID(rcs[0]), p.world.Votes, "approve"); err != nil {
		return
	}
	p.rule[chain] = ""
	p.shape["logout-"+chain] = true
}

func stateDiffOnlyFees(before, after map[string][]byte, allowed map[string]bool) []string {
	return diffDumps(before, after, func(k string, a, b []byte) bool {
		if strings.HasPrefix(k, "journal-") {
			return true
		}
		if strings.HasPrefix(k, "account-") && allowed[k[len("account-"):]] {
			x := &ledger2.InnerAccount{Balance: big.NewInt(0)}
			y := &ledger2.InnerAccount{Balance: big.NewInt(0)}
			if b == nil || y.Unmarshal(b) != nil {
				return false
			}
			if a != nil && x.Unmarshal(a) != nil {
				return false
			}
			return bytes.Equal(x.CodeHash, y.CodeHash)
		}
		return false
	})
}

func proof03Workload(args []string) int {
	a := parseArgs("proof03", args, nil)
	w := vlog.Open(a.Out)
	for id := a.From; id < a.To; id++ {
		rng := vlog.CaseRand(a.Seed, "proof03", id)
		if id%6 == 5 {
			// receipts and notices relayed from the remote hub (signed by its validators, also with too few
			// signatures and with signatures that cover a receipt of another type): same cases as C04's
			guard(w, "hub03", func() { hub04Case(w, a, id, rng) })
			continue
		}
		opts := harness.Options{NoAudit: rng.Intn(2) == 0}
		if rng.Intn(2) == 0 {
			opts.ProofType = "parallel"
		}
		w.CaseStart(id, map[string]interface{}{"opts": opts})
		guard(w, "proof03", func() {
			fx := filepath.Join(a.Work, fmt.Sprintf("fxh-%v", opts.NoAudit))
			if _, err := os.Stat(fx); err != nil {
				if err := buildHubFixture(fx, harness.Options{NoAudit: opts.NoAudit}); err != nil {
					os.RemoveAll(fx)
					w.Inconclusive("fixture: " + err.Error())
					w.CaseDone("fixture-error", false)
					return
				}
			}
			dir := filepath.Join(a.Work, fmt.Sprintf("case-%d", id))
			defer os.RemoveAll(dir)
			if err := harness.CopyDir(fx, dir); err != nil {
				w.Inconclusive(err.Error())
				return
			}
			world, err := harness.OpenWorld(dir, opts)
			if err != nil {
				w.Violation("open:error", err.Error(), nil)
				w.CaseDone("open-error", false)
				return
			}
			seen := map[string]bool{}
			p := &p03{w: w, world: world, rng: rng, m: model.NewIx(), dir: dir, shape: map[string]bool{},
				rule: map[string]string{harness.ChainA: "happy", harness.ChainB: "happy", harness.ChainC: "happy", "chainW": "firstbyte", "chainT": "trap", "chainU": "burn"}}
			p.viol = func(sig, detail string) {
				if seen[sig] {
					return
				}
				seen[sig] = true
				w.Violation(sig, detail, map[string]interface{}{"opts": opts, "history": p.blocks})
			}
			admins := map[string]bool{}
			for i := 0; i < 4; i++ {
				admins[harness.AdminKey(i).Addr.String()] = true
			}
			// the victim pair of the alternative-entry attempts is watched from the start
			p.m.Pairs[harness.FullID(harness.ChainA, "s1")+"|"+harness.FullID(harness.ChainB, "s1")] = &model.IxPair{}
			{
				f, t := forgedHubPair()
				p.m.Pairs[f+"|"+t] = &model.IxPair{}
			}
			for b := 0; b < 22; b++ {
				// rule history events, alone in their blocks
				switch rng.Intn(14) {
				case 0:
					kind, approve := []string{"never", "firstbyte", "happy"}[rng.Intn(3)], rng.Intn(3) != 0
					p.changeRule(kind, approve)
					p.blocks = append(p.blocks, fmt.Sprintf("rule change of chainW to %s (approve=%v): now %s", kind, approve, p.rule["chainW"]))
					continue
				case 1:
					if b > 12 {
						// chainW too: its former master rule would still verify, but a logged-out chain has no rule bound
						c := []string{"chainT", "chainU", "chainW", "chainW"}[rng.Intn(4)]
						p.logoutChain(c)
						p.blocks = append(p.blocks, "logout "+c)
						continue
					}
				}
				h := world.R.Height() + 1
				if p.deferred != nil {
					h++ // the held-back votes are the block in between
				}
				p.m.BeginBlock(h)
				var items []p03Tx
				n := []int{1, 1, 2, 4, 5, 6, 11, 12}[rng.Intn(8)]
				if p.deferred != nil && n < 4 {
					n = 4
				}
				for i := 0; i < n; i++ {
					var it p03Tx
					switch x := rng.Intn(10); {
					case x < 6:
						it = p.mkLocal()
					case x < 8:
						it = p.mkInterHub()
					default:
						it = p.mkAlt()
					}
					if it.isIBTP {
						it.accept, _ = p.m.Submit(it.mi)
					}
					items = append(items, it)
				}
				p.m.EndBlock()
				var txs []pb.Transaction
				var descs []string
				allInvalid := true
				senders := map[string]bool{}
				for _, it := range items {
					txs = append(txs, it.tx)
					descs = append(descs, it.desc)
					if !(it.isIBTP && !it.valid) {
						allInvalid = false
					}
					senders[it.tx.GetFrom().String()] = true
				}
				p.blocks = append(p.blocks, fmt.Sprintf("block %d: %s", h, strings.Join(descs, " ;; ")))
				if len(p.blocks) > 12 {
					p.blocks = p.blocks[len(p.blocks)-12:]
				}
				var before map[string][]byte
				if allInvalid && p.deferred == nil {
					before = world.R.DumpState()
				}
				w.Step(fmt.Sprintf("block %d: %s", h, strings.Join(descs, " ;; ")))
				var res *harness.BlockResult
				var err error
				if p.deferred != nil {
					d := harness.WireRoundTrip(p.deferred)
					p.deferred = nil
					world.TS += 1000
					ts1 := world.TS
					world.TS += 1000
					var rs []*harness.BlockResult
					rs, err = world.R.ExecPipelined([]harness.PipeBlock{{Txs: d, TS: ts1}, {Txs: harness.WireRoundTrip(txs), TS: world.TS}})
					if err == nil && len(rs) == 2 {
						res = rs[1]
						w.Count("blocks_handed_over_together_with_the_deciding_rule_votes", 1)
					} else if err == nil {
						err = fmt.Errorf("pipelined pair returned %d results", len(rs))
					}
				} else {
					res, err = world.Exec(txs...)
				}
				if err != nil {
					p.viol("exec:error", err.Error())
					break
				}
				w.Count("blocks", 1)
				listed := map[uint64]string{}
				for chain, sl := range res.Meta.Counter {
					for _, vi := range sl.Slice {
						listed[vi.Index] = chain
					}
				}
				for i, it := range items {
					rc := res.Receipts[i]
					ok := rc.Status == pb.Receipt_SUCCESS
					switch {
					case it.alt:
						w.Count("alt_entry_attempts", 1)
						if ok {
							w.Count("alt_entry_receipt_success", 1)
						}
						if c, is := listed[uint64(i)]; is {
							p.viol("alt-entry:delivered", fmt.Sprintf("block %d: %s produced a delivery entry for chain %s", h, it.desc, c))
						}
					case it.isIBTP:
						w.Count("ibtps", 1)
						if !it.valid {
							w.Count("ibtps_invalid_proof", 1)
							p.shape["invalid:"+strings.SplitN(strings.SplitN(it.desc, "proof=", 2)[len(strings.SplitN(it.desc, "proof=", 2))-1], "[", 2)[0]] = true
							if ok {
								cls := "local"
								if strings.HasPrefix(it.desc, "interhub") {
									cls = "interhub"
								}
								p.viol("unverified-ibtp-accepted:"+cls, fmt.Sprintf("block %d tx %d: %s has no valid proof for its origin but was accepted", h, i, it.desc))
							}
							if c, is := listed[uint64(i)]; is {
								p.viol("unverified-ibtp-delivered", fmt.Sprintf("block %d tx %d: %s is listed for delivery to %s", h, i, it.desc, c))
							}
						} else {
							w.Count("ibtps_valid_proof", 1)
							if ok != it.accept {
								if it.accept {
									p.viol("verified-ibtp-rejected", fmt.Sprintf("block %d tx %d: %s has a valid proof and a valid index but was rejected: %s", h, i, it.desc, string(rc.Ret)))
								} else {
									w.Count("other_property_observations:C02", 1)
								}
							}
						}
					}
				}
				// counters and statuses must be exactly what the accepted (verified) IBTPs produced
				for k, pp := range p.m.Pairs {
					ft := strings.Split(k, "|")
					src := world.Interchain(ft[0])
					var got uint64
					var gotR uint64
					if src != nil {
						got, gotR = src.InterchainCounter[ft[1]], src.ReceiptCounter[ft[1]]
					}
					w.Count("obs_counter_checks", 1)
					if got != pp.Req || gotR != pp.Rcp {
						p.viol("counters-changed-without-verified-ibtp", fmt.Sprintf("after block %d pair %s: counters (%d,%d), verified and accepted IBTPs give (%d,%d); block: %s", h, k, got, gotR, pp.Req, pp.Rcp, strings.Join(descs, " ;; ")))
						pp.Req, pp.Rcp = got, gotR
					}
				}
				for idt, tx := range p.m.Txs {
					if got := world.Status(idt); got != tx.Status {
						p.viol("status-changed-without-verified-ibtp", fmt.Sprintf("after block %d tx %s: status %s, verified and accepted IBTPs give %s", h, idt, model.StName[got], model.StName[tx.Status]))
						tx.Status = got
					}
				}
				if allInvalid && len(items) > 0 && before != nil {
					w.Count("obs_invalid_only_blocks", 1)
					allowed := map[string]bool{}
					for s := range senders {
						allowed[s] = true
					}
					for ad := range admins {
						allowed[ad] = true
					}
					if d := stateDiffOnlyFees(before, world.R.DumpState(), allowed); len(d) > 0 {
						p.viol("unverified-ibtp-changed-state", fmt.Sprintf("block %d holds only IBTPs without a valid proof but changed state keys %v beyond sender nonce/fee; block: %s", h, d, strings.Join(descs, " ;; ")))
					}
				}
			}
			p.flush()
			world.R.Close()
			var sh []string
			for k := range p.shape {
				sh = append(sh, k)
			}
			sort.Strings(sh)
			if id == a.From {
				w.Sample(map[string]interface{}{"case": id, "opts": opts, "last_blocks": p.blocks})
			}
			w.CaseDone(fmt.Sprintf("%s|audit%v|%s", opts.ProofType, !opts.NoAudit, strings.Join(sh, ",")), true)
		})
	}
	w.End()
	return 0
}
