package main

import (
	"crypto/sha256"
	"encoding/binary"
	"fmt"
	"math/big"
	"math/rand"
	"strings"

	"github.com/meshplus/bitxhub-kit/types"
	"github.com/meshplus/bitxhub-model/pb"
	"github.com/meshplus/bitxhub/verif/harness"
	"github.com/meshplus/bitxhub/verif/model"
	ethkittypes "github.com/meshplus/eth-kit/types"
)

// mixGen generates blocks mixing every transaction kind the node accepts. It is feedback driven
// (proposal ids come from receipts), so it runs against a live world; the produced blocks are
// plain transaction lists that can be replayed on other replicas.
type mixGen struct {
	w            *harness.World
	rng          *rand.Rand
	ix           *model.Ix
	pairs        []ixPairDef
	open         []string // open proposal ids
	voted        map[string]int
	chains       []string
	nextNew      int
	t08          *t08
	groups       []*mixGroup
	ruleAddr     []string
	kinds        map[string]int
	drained      bool
	blocked      map[string]bool // pair -> its destination currently black-lists its source (as far as the generator knows)
	ethFunded    bool
	ethContracts []*types.Address
	poorFunded   bool
	forceReq     bool  // the next block starts with a valid request on a usable pair
	forceTimeout int64 // ... with this timeout
	forceRcp     bool  // the next block starts with the success receipt of the scripted pair's oldest open request
	poorNonce    uint64
}

// wasmCreateAddress is the address pkg/vm/wasm gives a contract deployed by b at ledger nonce n.
func wasmCreateAddress(b *types.Address, n uint64) *types.Address {
	nb := make([]byte, 8)
	binary.LittleEndian.PutUint64(nb, n)
	h := sha256.Sum256(append(append([]byte{}, b.Bytes()...), nb...))
	return types.NewAddress(h[12:])
}

// ethTx draws one Ethereum-format transaction: plain transfers, deployments, calls, and the rejections
// the EVM makes before (nonce, cannot buy gas) and after (intrinsic gas, value) it has bought the gas.
func (g *mixGen) ethTx() pb.Transaction {
	r, w := g.rng, g.w
	sender := []string{"eth-0", "eth-1"}[r.Intn(2)]
	// every transaction gets a gas price of its own: nonces recur after replays and gaps, and the identical
	// transaction in two blocks is something ordering rules out (the by-hash indexes hold one position per hash)
	g.w.EthCtr++
	price := big.NewInt(1000 + g.w.EthCtr)
	other := harness.EthAddr(harness.EthKey("eth-receiver"))
	// init code: stores a word at slot 0xff (a binary storage key), then returns the 10-byte runtime
	// (PUSH1 0x2a; MSTORE; RETURN 32 bytes)
	deploy := []byte{0x60, 0x2a, 0x60, 0xff, 0x55, 0x60, 0x0a, 0x60, 0x11, 0x60, 0x00, 0x39, 0x60, 0x0a, 0x60, 0x00, 0xf3, 0x60, 0x2a, 0x60, 0x00, 0x52, 0x60, 0x20, 0x60, 0x00, 0xf3}
	// a second contract: first calldata byte 1 = SSTORE(slot = byte 1, value = byte 2) - a zero value clears the slot
	// and earns a gas refund -, 2 = SELFDESTRUCT to the caller, anything else returns a word
	slotsRuntime := []byte{0x60, 0x00, 0x35, 0x60, 0x00, 0x1a, 0x80, 0x60, 0x01, 0x14, 0x60, 0x1e, 0x57, 0x80, 0x60, 0x02, 0x14, 0x60, 0x2d, 0x57,
		0x60, 0x2a, 0x60, 0x00, 0x52, 0x60, 0x20, 0x60, 0x00, 0xf3,
		0x5b, 0x60, 0x00, 0x35, 0x60, 0x02, 0x1a, 0x60, 0x00, 0x35, 0x60, 0x01, 0x1a, 0x55, 0x00,
		0x5b, 0x33, 0xff}
	deploySlots := append([]byte{0x60, 0x30, 0x60, 0x0c, 0x60, 0x00, 0x39, 0x60, 0x30, 0x60, 0x00, 0xf3}, slotsRuntime...)
	switch x := r.Intn(112); {
	case x >= 100 && x < 104:
		g.note("eth-deploy-slots-contract")
		return w.Eth(sender, 0, 200000, price, big.NewInt(0), nil, deploySlots)
	case x >= 104:
		// storage writes, clears (gas refund) and self-destruction on the contracts deployed so far; later calls and
		// transfers reach the destroyed address again
		to := other
		if len(g.ethContracts) > 0 {
			to = g.ethContracts[r.Intn(len(g.ethContracts))]
		}
		switch y := r.Intn(10); {
		case y < 4:
			g.note("eth-call-sstore-set")
			return w.Eth(sender, 0, 80000, price, big.NewInt(0), to, []byte{1, byte(r.Intn(3)), byte(1 + r.Intn(200))})
		case y < 8:
			g.note("eth-call-sstore-clear")
			return w.Eth(sender, 0, 80000, price, big.NewInt(0), to, []byte{1, byte(r.Intn(3)), 0})
		case y < 9:
			g.note("eth-call-selfdestruct")
			return w.Eth(sender, 0, 80000, price, big.NewInt(0), to, []byte{2})
		default:
			g.note("eth-transfer-to-contract")
			return w.Eth(sender, 0, 60000, price, big.NewInt(int64(1+r.Intn(1000))), to, nil)
		}
	case x < 25:
		g.note("eth-transfer")
		return w.Eth(sender, 0, 21000, price, big.NewInt(int64(1+r.Intn(1000))), other, nil)
	case x < 37:
		g.note("eth-intrinsic-gas-too-low")
		return w.Eth(sender, 0, 20000, price, big.NewInt(0), other, nil)
	case x < 49:
		g.note("eth-value-exceeds-balance")
		return w.Eth(sender, 0, 21000, price, new(big.Int).Exp(big.NewInt(10), big.NewInt(30), nil), other, nil)
	case x < 57:
		g.note("eth-cannot-buy-gas")
		return w.Eth(sender, 0, 21000, new(big.Int).Add(new(big.Int).Exp(big.NewInt(10), big.NewInt(30), nil), price), big.NewInt(0), other, nil)
	case x < 63:
		g.note("eth-nonce-replayed")
		// a different transaction with an already used nonce (the identical transaction in two blocks is
		// something ordering rules out, C20; the by-hash indexes can only hold one position per hash)
		g.w.EthCtr++
		return w.Eth(sender, -1, 21000, price, big.NewInt(1000000+g.w.EthCtr), other, nil)
	case x < 68:
		g.note("eth-nonce-gap")
		g.w.EthCtr++
		return w.Eth(sender, 1, 21000, price, big.NewInt(1000000+g.w.EthCtr), other, nil)
	case x < 80:
		g.note("eth-deploy")
		return w.Eth(sender, 0, 200000, price, big.NewInt(0), nil, deploy)
	case x < 86:
		g.note("eth-deploy-reverting")
		return w.Eth(sender, 0, 200000, price, big.NewInt(0), nil, []byte{0x60, 0x00, 0x60, 0x00, 0xfd})
	case x < 89:
		g.note("eth-deploy-out-of-gas")
		return w.Eth(sender, 0, 53100, price, big.NewInt(0), nil, deploy)
	case x < 92:
		// a contract without code: the account has a code hash and no code bytes (later calls read its code)
		g.note("eth-deploy-empty-init-code")
		return w.Eth(sender, 0, 200000, price, big.NewInt(0), nil, nil)
	default:
		to := other
		if len(g.ethContracts) > 0 {
			to = g.ethContracts[r.Intn(len(g.ethContracts))]
		}
		g.note("eth-call")
		return w.Eth(sender, 0, 60000, price, big.NewInt(0), to, []byte{1, 2, 3, 4})
	}
}

type mixGroup struct {
	from     string
	keys     []string
	vals     []uint64
	sent     int
	reported int
}

func newMixGen(w *harness.World, rng *rand.Rand) *mixGen {
	g := &mixGen{w: w, rng: rng, ix: model.NewIx(), voted: map[string]int{}, kinds: map[string]int{}, blocked: map[string]bool{},
		chains: []string{harness.ChainA, harness.ChainB, harness.ChainC}}
	g.pairs = []ixPairDef{
		{ixServices[0], ixServices[2], true, false}, {ixServices[2], ixServices[0], true, false},
		{ixServices[1], ixServices[4], true, false}, {ixServices[5], ixServices[3], true, false},
		{ixServices[0], harness.FullID(harness.ChainB, "ghost"), false, false},
	}
	g.t08 = &t08{world: w, rng: rng, surf: w.R.Surface(), pool: idPool(), idx: map[string]uint64{}, kinds: map[string]int{}}
	return g
}

func (g *mixGen) note(k string) { g.kinds[k]++ }

// absorb looks at the receipts of an executed block to learn proposal ids.
func (g *mixGen) absorb(txs []pb.Transaction, res *harness.BlockResult) {
	for i, rc := range res.Receipts {
		if rc.Status != pb.Receipt_SUCCESS || i >= len(txs) {
			continue
		}
		if rc.ContractAddress != nil && len(g.ethContracts) < 6 {
			if _, isEth := txs[i].(*ethkittypes.EthTransaction); isEth {
				g.ethContracts = append(g.ethContracts, rc.ContractAddress)
			}
		}
		if pid := harness.ProposalID(rc); pid != "" && strings.Contains(string(rc.Ret), "proposal_id") {
			known := false
			for _, p := range g.open {
				if p == pid {
					known = true
				}
			}
			if !known {
				g.open = append(g.open, pid)
			}
		}
	}
	if len(g.open) > 12 {
		g.open = g.open[len(g.open)-12:]
	}
}

func (g *mixGen) ibtp(kind string, from, to string, idx uint64, timeout int64, group *pb.StringUint64Map) pb.Transaction {
	typ := map[string]pb.IBTP_Type{model.KReq: pb.IBTP_INTERCHAIN, model.KRcpSuccess: pb.IBTP_RECEIPT_SUCCESS, model.KRcpFailure: pb.IBTP_RECEIPT_FAILURE, model.KRcpRollbk: pb.IBTP_RECEIPT_ROLLBACK}[kind]
	ib := harness.MkIBTP(from, to, idx, typ, timeout)
	ib.Group = group
	return g.w.IBTPTx(harness.User(g.rng.Intn(3)), ib, []byte("proof"))
}

func (g *mixGen) genBlock(h uint64) []pb.Transaction {
	r, w := g.rng, g.w
	g.ix.BeginBlock(h)
	var txs []pb.Transaction
	if !g.drained {
		// chainB's admin is left with less than one BVM fee: its governance calls run, post their
		// events and then fail at fee payment (state reverted, caches must not keep the events)
		g.drained = true
		ca := harness.ChainAdmin(harness.ChainB)
		bal := new(big.Int).Set(w.R.ViewL.GetBalance(ca.Addr))
		w.R.ViewL.Clear()
		if bal.Cmp(big.NewInt(20000000000)) > 0 {
			txs = append(txs, w.Transfer(ca, harness.User(3).Addr, new(big.Int).Sub(bal, big.NewInt(10000000000)).String()))
		}
	}
	n := 1 + r.Intn(7)
	if r.Intn(12) == 0 {
		n = 0
	}
	if len(g.pairs) > 0 && r.Intn(5) == 0 {
		// the destination of a pair that carries traffic starts / stops blocking the pair's source, by a
		// black-list-only UpdateService (applied at once, mirrored into the executor's service cache)
		p := g.pairs[r.Intn(len(g.pairs))]
		if parts := strings.Split(p.to, ":"); len(parts) == 3 && parts[0] == harness.BxhID {
			svc := parts[1] + ":" + parts[2]
			bl := p.from
			if g.blocked[p.from+"|"+p.to] {
				bl = ""
			}
			if t, ok := w.PermitOnlyUpdate(harness.ChainAdmin(parts[1]), svc, bl); ok {
				g.blocked[p.from+"|"+p.to] = bl != ""
				txs = append(txs, t)
				g.note("gov-service-blacklist-toggle")
			}
		}
	}
	// ---- Ethereum-format transactions (EVM): funded once, then a few per block now and then
	if !g.ethFunded {
		g.ethFunded = true
		for _, s := range []string{"eth-0", "eth-1"} {
			txs = append(txs, w.Transfer(harness.User(0), harness.EthAddr(harness.EthKey(s)), "1000000000000"))
		}
	} else if r.Intn(3) == 0 {
		for k := 1 + r.Intn(3); k > 0; k-- {
			txs = append(txs, g.ethTx())
		}
	}
	if g.forceReq {
		// the caller wants this block to carry at least one request the chain will accept
		g.forceReq = false
		for _, p := range g.pairs {
			if !p.usable || g.blocked[p.from+"|"+p.to] {
				continue
			}
			var req uint64
			if pp := g.ix.Pairs[p.from+"|"+p.to]; pp != nil {
				req = pp.Req
			}
			g.ix.Submit(model.IxIBTP{From: p.from, To: p.to, Index: req + 1, Kind: model.KReq, Timeout: g.forceTimeout, DstUsable: p.usable, ProofOK: true})
			txs = append(txs, g.ibtp(model.KReq, p.from, p.to, req+1, g.forceTimeout, nil))
			g.note("ibtp-request")
			break
		}
		g.forceTimeout = 0
	}
	if g.forceRcp {
		g.forceRcp = false
		for _, p := range g.pairs {
			if !p.usable || g.blocked[p.from+"|"+p.to] {
				continue
			}
			if pp := g.ix.Pairs[p.from+"|"+p.to]; pp != nil && pp.Rcp < pp.Req {
				idx := pp.Rcp + 1
				g.ix.Submit(model.IxIBTP{From: p.from, To: p.to, Index: idx, Kind: model.KRcpSuccess, DstUsable: p.usable, ProofOK: true})
				txs = append(txs, g.ibtp(model.KRcpSuccess, p.from, p.to, idx, 0, nil))
				g.note("ibtp-receipt")
			}
			break
		}
	}
	for i := 0; i < n; i++ {
		x := r.Intn(100)
		switch {
		case x < 14: // transfers
			if r.Intn(5) == 0 {
				// a transfer that covers the amount but not the fee: it runs, then fails at the fee, and the sender's
				// whole balance is what the admins get
				tight := harness.DetKey("tight-sender")
				bal := new(big.Int).Set(w.R.ViewL.GetBalance(tight.Addr))
				w.R.ViewL.Clear()
				if bal.Cmp(big.NewInt(5000)) < 0 {
					txs = append(txs, w.Transfer(harness.User(r.Intn(3)), tight.Addr, "900000000"))
					g.note("tight-sender-funded")
				} else {
					to := harness.User(3).Addr
					if r.Intn(2) == 0 {
						// towards an account that has storage but no account record (a system contract), which an
						// earlier transaction of the block has already loaded
						to = harness.AddrStore
						txs = append(txs, w.BVM(harness.User(r.Intn(3)), harness.AddrStore, "Set", pb.String(fmt.Sprintf("key%d", r.Intn(6))), pb.String(fmt.Sprintf("val%d", r.Intn(1000)))))
					}
					txs = append(txs, w.Transfer(tight, to, new(big.Int).Sub(bal, big.NewInt(int64(1+r.Intn(1000)))).String()))
					g.note("transfer-amount-covered-fee-not")
				}
				break
			}
			k := harness.User(r.Intn(4))
			amt := []string{"0", "1", "1000", "123456789", "999999999999999999999999999", "abc"}[r.Intn(6)]
			txs = append(txs, w.Transfer(k, harness.User(r.Intn(4)).Addr, amt))
			g.note("transfer")
		case x < 20:
			txs = append(txs, w.BVM(harness.User(r.Intn(4)), harness.AddrStore, "Set", pb.String(fmt.Sprintf("key%d", r.Intn(6))), pb.String(fmt.Sprintf("val%d", r.Intn(1000)))))
			g.note("store")
		case x < 50: // one-to-one IBTPs steered by the model
			p := g.pairs[r.Intn(len(g.pairs))]
			pp := g.ix.Pairs[p.from+"|"+p.to]
			var req, rcp uint64
			if pp != nil {
				req, rcp = pp.Req, pp.Rcp
			}
			if r.Intn(9) == 0 {
				// the next valid request of the pair (usable destination or not), sent by an account without funds: the
				// contract runs - towards an unusable destination it answers "begin_failure" -, the fee cannot be paid,
				// the transaction fails: for the chain and for the model it was never made, and nobody is told about it
				ib := harness.MkIBTP(p.from, p.to, req+1, pb.IBTP_INTERCHAIN, int64([]int{0, 2, 5}[r.Intn(3)]))
				txs = append(txs, w.IBTPTx(harness.Pauper(), ib, []byte("proof")))
				g.note("ibtp-request-by-an-account-that-cannot-pay")
				if !p.usable {
					g.note("ibtp-request-to-unusable-destination-by-an-account-that-cannot-pay")
				}
				break
			}
			if r.Intn(2) == 0 || rcp >= req {
				idx := req + 1
				if r.Intn(10) == 0 {
					idx = req + uint64(r.Intn(3))
				}
				to := int64([]int{0, 1, 2, 3, 3, 5}[r.Intn(6)])
				g.ix.Submit(model.IxIBTP{From: p.from, To: p.to, Index: idx, Kind: model.KReq, Timeout: to, DstUsable: p.usable, ProofOK: true})
				txs = append(txs, g.ibtp(model.KReq, p.from, p.to, idx, to, nil))
				g.note("ibtp-request")
			} else {
				kind := []string{model.KRcpSuccess, model.KRcpSuccess, model.KRcpFailure, model.KRcpRollbk}[r.Intn(4)]
				idx := rcp + 1
				if r.Intn(10) == 0 {
					idx = rcp + uint64(r.Intn(3))
				}
				g.ix.Submit(model.IxIBTP{From: p.from, To: p.to, Index: idx, Kind: kind, DstUsable: p.usable, ProofOK: true})
				txs = append(txs, g.ibtp(kind, p.from, p.to, idx, 0, nil))
				g.note("ibtp-receipt")
			}
		case x < 64: // one-to-many groups
			if len(g.groups) == 0 || r.Intn(3) == 0 {
				// new group from chainC:s1 towards 3-5 destinations on 2-3 chains
				from := ixServices[4]
				dsts := []string{ixServices[0], ixServices[1], ixServices[2], ixServices[3], harness.FullID("chainW", "s1")}
				r.Shuffle(len(dsts), func(i, j int) { dsts[i], dsts[j] = dsts[j], dsts[i] })
				k := 3 + r.Intn(3)
				grp := &mixGroup{from: from}
				for _, d := range dsts[:k] {
					pp := g.ix.Pairs[from+"|"+d]
					next := uint64(1)
					if pp != nil {
						next = pp.Req + 1
					}
					grp.keys = append(grp.keys, d)
					grp.vals = append(grp.vals, next)
					// reserve the index in the model so that later one-to-one traffic stays consistent
					g.ix.Submit(model.IxIBTP{From: from, To: d, Index: next, Kind: model.KReq, DstUsable: true, ProofOK: true})
				}
				g.groups = append(g.groups, grp)
				g.note("group-new")
			}
			grp := g.groups[r.Intn(len(g.groups))]
			gm := &pb.StringUint64Map{Keys: grp.keys, Vals: grp.vals}
			if grp.sent < len(grp.keys) && r.Intn(3) != 0 {
				i := grp.sent
				grp.sent++
				to := int64([]int{0, 2, 3, 4}[r.Intn(4)])
				txs = append(txs, g.ibtp(model.KReq, grp.from, grp.keys[i], grp.vals[i], to, gm))
				g.note("group-child-request")
			} else if grp.sent > 0 {
				i := r.Intn(grp.sent)
				kind := []string{model.KRcpSuccess, model.KRcpSuccess, model.KRcpSuccess, model.KRcpFailure, model.KRcpRollbk}[r.Intn(5)]
				txs = append(txs, g.ibtp(kind, grp.from, grp.keys[i], grp.vals[i], 0, gm))
				g.note("group-child-receipt")
			}
		case x < 84: // governance
			tx := g.govTx()
			if bt, ok := tx.(*pb.BxhTransaction); ok && r.Intn(8) == 0 {
				// the timestamp is optional on the wire: a record dated by it must be dated the same by every replica
				if k := keyOf(bt.From); k != nil {
					bt.Timestamp = 0
					harness.Finish(bt, k, bt.Extra)
					g.note("gov-tx-without-timestamp")
				}
			}
			txs = append(txs, tx)
		case x < 88: // XVM
			k := harness.User(r.Intn(4))
			if r.Intn(3) == 0 {
				// a deployer that cannot pay the deploy fee: the code is written first and the fee fails
				// afterwards. The address the contract would get is funded beforehand, so that the failed
				// deployment hits an account that already exists in the ledger
				poor := harness.DetKey("poor-deployer")
				target := wasmCreateAddress(poor.Addr, g.poorNonce)
				if !g.poorFunded {
					g.poorFunded = true
					txs = append(txs, w.Transfer(k, poor.Addr, "1000"), w.Transfer(k, target, "5"))
					g.note("xvm-poor-deployer-funded")
					break
				}
				code, _ := harness.RuleWasm("firstbyte")
				txs = append(txs, harness.XVMDeployTx(poor, w.Nonce(poor.Addr), w.Stamp(), code))
				if r.Intn(2) == 0 { // and a call of the address in the same block
					txs = append(txs, harness.XVMInvokeTx(k, w.Nonce(k.Addr), w.Stamp(), target, "start_verify", pb.Bytes([]byte{1}), pb.Bytes([]byte("v")), pb.Bytes([]byte("p"))))
				}
				g.poorNonce++
				txs = append(txs, w.Transfer(k, wasmCreateAddress(poor.Addr, g.poorNonce), "5")) // the next target
				g.note("xvm-deploy-unpaid-to-existing-account")
				break
			}
			if len(g.ruleAddr) == 0 || r.Intn(2) == 0 {
				code, _ := harness.RuleWasm([]string{"firstbyte", "never", "trap"}[r.Intn(3)])
				tx := harness.XVMDeployTx(k, w.Nonce(k.Addr), w.Stamp(), code)
				txs = append(txs, tx)
				g.note("xvm-deploy")
			} else {
				txs = append(txs, harness.XVMInvokeTx(k, w.Nonce(k.Addr), w.Stamp(), types.NewAddressByStr(g.ruleAddr[r.Intn(len(g.ruleAddr))]), "start_verify", pb.Bytes([]byte{1}), pb.Bytes([]byte("v")), pb.Bytes([]byte("p"))))
				g.note("xvm-invoke")
			}
		default: // malformed / hostile
			tx, tag := g.t08.genTx()
			if strings.HasPrefix(tag, "ok:ibtp") { // would disturb the pair counters tracked here
				tx = w.Transfer(harness.User(0), harness.User(1).Addr, "7")
				tag = "ok:transfer"
			}
			txs = append(txs, tx)
			g.note("hostile:" + strings.SplitN(tag, ":", 2)[0])
		}
	}
	g.ix.EndBlock()
	return txs
}

func (g *mixGen) govTx() pb.Transaction {
	r, w := g.rng, g.w
	chain := g.chains[r.Intn(len(g.chains))]
	ca := harness.ChainAdmin(chain)
	adm := harness.AdminKey(r.Intn(4))
	svc := chain + ":" + []string{"s1", "s2"}[r.Intn(2)]
	actor := ca
	if r.Intn(3) == 0 {
		actor = adm
	}
	x := r.Intn(100)
	switch {
	case x < 40 && len(g.open) > 0: // votes
		pid := g.open[r.Intn(len(g.open))]
		ballot := "approve"
		if r.Intn(4) == 0 {
			ballot = "reject"
		}
		g.note("gov-vote")
		return w.BVM(adm, harness.AddrGov, "Vote", pb.String(pid), pb.String(ballot), pb.String("r"))
	case x < 46:
		g.nextNew++
		id := fmt.Sprintf("chainN%d", g.nextNew)
		k := harness.User(3) // one account can administrate only one chain: later attempts fail deterministically
		if g.nextNew == 1 {
			g.chains = append(g.chains, id)
		}
		g.note("gov-register-appchain")
		return w.BVM(k, harness.AddrAppchain, "RegisterAppchain", pb.String(id), pb.String("name-"+id), pb.Bytes(nil), pb.String("ETH"), pb.Bytes(nil),
			pb.String("123"), pb.String("desc"), pb.String("0x00000000000000000000000000000000000000a2"), pb.String("url"), pb.String(k.Addr.String()), pb.String("reason"))
	case x < 52:
		g.note("gov-service-register")
		return w.BVM(ca, harness.AddrService, "RegisterService", pb.String(chain), pb.String(fmt.Sprintf("s%d", 3+r.Intn(3))), pb.String(fmt.Sprintf("svcname-%d", r.Intn(1000))), pb.String("CallContract"), pb.String("intro"),
			pb.Uint64(uint64(r.Intn(2))), pb.String(""), pb.String("details"), pb.String("reason"))
	case x < 55:
		// black list only: applied at once and mirrored into the executor's service cache
		bl := []string{"", harness.FullID(harness.ChainA, "s1"), harness.FullID(harness.ChainB, "s1") + "," + harness.FullID(harness.ChainC, "s1")}[r.Intn(3)]
		if len(g.pairs) > 0 && r.Intn(4) != 0 {
			// aim at a pair that carries traffic: its destination starts / stops blocking its source
			p := g.pairs[r.Intn(len(g.pairs))]
			if parts := strings.Split(p.to, ":"); len(parts) == 3 && parts[0] == harness.BxhID {
				svc, ca = parts[1]+":"+parts[2], harness.ChainAdmin(parts[1])
				bl = []string{"", p.from, p.from}[r.Intn(3)]
			}
		}
		if t, ok := w.PermitOnlyUpdate(ca, svc, bl); ok {
			g.note("gov-service-blacklist-update")
			return t
		}
		g.note("gov-service-update")
		return w.BVM(actor, harness.AddrService, "UpdateService", pb.String(svc), pb.String(fmt.Sprintf("newname-%d", r.Intn(1000))), pb.String("intro2"), pb.String(""), pb.String("details2"), pb.String("reason"))
	case x < 58:
		g.note("gov-service-update")
		return w.BVM(actor, harness.AddrService, "UpdateService", pb.String(svc), pb.String(fmt.Sprintf("newname-%d", r.Intn(1000))), pb.String("intro2"), pb.String(""), pb.String("details2"), pb.String("reason"))
	case x < 64:
		g.note("gov-service-freeze")
		return w.BVM(actor, harness.AddrService, "FreezeService", pb.String(svc), pb.String("reason"))
	case x < 70:
		g.note("gov-service-activate")
		return w.BVM(actor, harness.AddrService, "ActivateService", pb.String(svc), pb.String("reason"))
	case x < 73:
		g.note("gov-service-logout")
		return w.BVM(actor, harness.AddrService, "LogoutService", pb.String(chain+":s2"), pb.String("reason"))
	case x < 78:
		g.note("gov-appchain-freeze")
		return w.BVM(actor, harness.AddrAppchain, "FreezeAppchain", pb.String(chain), pb.String("reason"))
	case x < 83:
		g.note("gov-appchain-activate")
		return w.BVM(actor, harness.AddrAppchain, "ActivateAppchain", pb.String(chain), pb.String("reason"))
	case x < 85:
		g.note("gov-appchain-logout")
		return w.BVM(actor, harness.AddrAppchain, "LogoutAppchain", pb.String(harness.ChainC), pb.String("reason"))
	case x < 88:
		g.note("gov-appchain-update")
		return w.BVM(actor, harness.AddrAppchain, "UpdateAppchain", pb.String(chain), pb.String("name2-"+chain), pb.String("desc2"), pb.Bytes(nil), pb.String(ca.Addr.String()), pb.String("reason"))
	case x < 92:
		g.note("gov-role-register")
		return w.BVM(adm, harness.AddrRole, "RegisterRole", pb.String(harness.DetKey(fmt.Sprintf("new-admin-%d", r.Intn(3))).Addr.String()), pb.String("governanceAdmin"), pb.String(""), pb.String("reason"))
	case x < 94:
		g.note("gov-role-freeze")
		return w.BVM(adm, harness.AddrRole, "FreezeRole", pb.String(harness.DetKey(fmt.Sprintf("new-admin-%d", r.Intn(3))).Addr.String()), pb.String("reason"))
	case x < 96:
		g.note("gov-node-register")
		return w.BVM(adm, harness.AddrNode, "RegisterNode", pb.String(harness.DetKey(fmt.Sprintf("node-%d", r.Intn(3))).Addr.String()), pb.String("nvpNode"), pb.String(""), pb.Uint64(0), pb.String(fmt.Sprintf("nvp%d", r.Intn(3))), pb.String(""), pb.String("reason"))
	case x < 98:
		g.note("gov-rule-register")
		ra := "0x00000000000000000000000000000000000000a2"
		if len(g.ruleAddr) > 0 {
			ra = g.ruleAddr[r.Intn(len(g.ruleAddr))]
		}
		return w.BVM(ca, harness.AddrRule, "RegisterRule", pb.String(chain), pb.String(ra), pb.String("url"))
	default:
		if len(g.open) > 0 {
			g.note("gov-withdraw")
			return w.BVM(actor, harness.AddrGov, "WithdrawProposal", pb.String(g.open[r.Intn(len(g.open))]), pb.String("reason"))
		}
		g.note("gov-vote")
		return w.BVM(adm, harness.AddrGov, "Vote", pb.String("nope-1"), pb.String("approve"), pb.String("r"))
	}
}
