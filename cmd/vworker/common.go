package main

import (
	"flag"
	"fmt"
	"os"
	"runtime"
	"sort"
	"strings"

	"github.com/meshplus/bitxhub/verif/vlog"
)

type wargs struct {
	Seed     int64
	From, To int
	Out      string
	Work     string
	Tier     string
	fs       *flag.FlagSet
}

func parseArgs(name string, args []string, extra func(fs *flag.FlagSet)) *wargs {
	a := &wargs{}
	fs := flag.NewFlagSet(name, flag.ExitOnError)
	fs.Int64Var(&a.Seed, "seed", 1, "")
	fs.IntVar(&a.From, "from", 0, "")
	fs.IntVar(&a.To, "to", 1, "")
	fs.StringVar(&a.Out, "out", "/dev/stdout", "")
	fs.StringVar(&a.Work, "work", "", "")
	fs.StringVar(&a.Tier, "tier", "quick", "")
	if extra != nil {
		extra(fs)
	}
	fs.Parse(args)
	if a.Work == "" {
		d, err := os.MkdirTemp("", "verif.work.")
		if err != nil {
			panic(err)
		}
		a.Work = d
	}
	a.fs = fs
	return a
}

// guard runs f for one case and converts a panic raised on the driver goroutine into a violation
// record (panics on other goroutines kill the process; the parent reports those).
func guard(w *vlog.W, sigPrefix string, f func()) {
	defer func() {
		if p := recover(); p != nil {
			buf := make([]byte, 16384)
			n := runtime.Stack(buf, false)
			w.Violation(sigPrefix+":panic:"+panicFrame(string(buf[:n])), fmt.Sprintf("panic: %v\n%s", p, string(buf[:n])), nil)
			w.CaseDone("panic", false)
		}
	}()
	f()
}

func panicFrame(stack string) string {
	for _, ln := range strings.Split(stack, "\n") {
		if i := strings.Index(ln, "github.com/meshplus/bitxhub/"); i >= 0 && !strings.Contains(ln, "/verif/") {
			f := ln[i+len("github.com/meshplus/bitxhub/"):]
			if j := strings.Index(f, "("); j > 0 {
				f = f[:j]
			}
			return f
		}
	}
	return "unknown"
}

func sortStrings(s []string) { sort.Strings(s) }
