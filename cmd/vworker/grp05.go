package main

import (
	"crypto/sha256"
	"encoding/json"
	"fmt"
	"math/rand"
	"os"
	"path/filepath"
	"sort"
	"strings"

	"github.com/meshplus/bitxhub-kit/types"
	"github.com/meshplus/bitxhub-model/pb"
	"github.com/meshplus/bitxhub/verif/harness"
	"github.com/meshplus/bitxhub/verif/model"
	"github.com/meshplus/bitxhub/verif/vlog"
)

func init() { workloads["grp05"] = grp05Workload }

// globalTxID reimplements the group id: sha256(from || json(map dst->index)) as 0x-hex hash string.
func globalTxID(from string, keys []string, vals []uint64) string {
	m := map[string]uint64{}
	for i, k := range keys {
		m[k] = vals[i]
	}
	data, _ := json.Marshal(m)
	h := sha256.Sum256(append([]byte(from), data...))
	return types.NewHash(h[:]).String()
}

type grpChild struct {
	to       string
	idx      uint64
	usable   bool
	sent     bool // a request tx was submitted
	begun    bool // request accepted (receipt SUCCESS)
	begunAt  [2]int
	success  bool // success receipt accepted
	succAt   [2]int
	reported bool
}

type grp struct {
	from        string
	keys        []string
	vals        []uint64
	declared    int
	children    []*grpChild
	gid         string
	timeout     int64
	firstH      uint64
	failedAt    uint64         // block of the first failure / timeout (0 = none)
	lastChildSt map[string]int // child id -> status after the previous block
	failEv      [2]int         // (height, tx index) of the failing event; tx index 1<<30 for expiry
	sawSucc     bool
}

func (c *grpChild) id(from string) string { return fmt.Sprintf("%s-%s-%d", from, c.to, c.idx) }

type txInfoRec struct {
	GlobalState  int
	Height       uint64
	ChildTxInfo  map[string]int
	ChildTxCount uint64
}

func before(a, b [2]int) bool { return a[0] < b[0] || (a[0] == b[0] && a[1] < b[1]) }

func grp05Workload(args []string) int {
	a := parseArgs("grp05", args, nil)
	w := vlog.Open(a.Out)
	for id := a.From; id < a.To; id++ {
		rng := vlog.CaseRand(a.Seed, "grp05", id)
		opts := harness.Options{NoAudit: rng.Intn(2) == 0}
		w.CaseStart(id, map[string]interface{}{"opts": opts})
		guard(w, "grp05", func() { grp05Case(w, a, id, rng, opts, "C05") })
	}
	w.End()
	return 0
}

// grp05Case runs one generated history of one-to-many groups. prop selects which oracle's findings count:
// C05 (all-or-nothing, notifications) or C06 (the group as a whole times out exactly at H+T and never otherwise).
func grp05Case(w *vlog.W, a *wargs, id int, rng *rand.Rand, opts harness.Options, prop string) {
	fx := filepath.Join(a.Work, fmt.Sprintf("fxe-%v", opts.NoAudit))
	if _, err := os.Stat(fx); err != nil {
		wf, err := harness.BuildExtended(fx, opts)
		if err != nil {
			os.RemoveAll(fx)
			w.Inconclusive("fixture: " + err.Error())
			w.CaseDone("fixture-error", false)
			return
		}
		// a source service whose id contains the '-' that separates the parts of a transaction id
		if err := wf.RegisterService(harness.ChainAdmin(harness.ChainC), harness.ChainC, "s-4", true, ""); err != nil {
			wf.R.Close()
			os.RemoveAll(fx)
			w.Inconclusive("fixture: " + err.Error())
			w.CaseDone("fixture-error", false)
			return
		}
		wf.R.Close()
	}
	dir := filepath.Join(a.Work, fmt.Sprintf("case-%d", id))
	defer os.RemoveAll(dir)
	if err := harness.CopyDir(fx, dir); err != nil {
		w.Inconclusive(err.Error())
		return
	}
	world, err := harness.OpenWorld(dir, opts)
	if err != nil {
		w.Violation("open:error", err.Error(), nil)
		w.CaseDone("open-error", false)
		return
	}
	defer func() { world.R.Close() }()
	var hist []string
	seen := map[string]bool{}
	viol := func(sig, detail string) {
		if isTimeoutSig := strings.HasPrefix(sig, "timeout-list:") || strings.HasPrefix(sig, "timeout:"); isTimeoutSig != (prop == "C06") {
			if !strings.HasPrefix(sig, "exec:") {
				w.Count("other_property_observations", 1)
				return
			}
		}
		if seen[sig] {
			return
		}
		seen[sig] = true
		w.Violation(sig, detail, map[string]interface{}{"opts": opts, "history": hist})
	}
	// ---- groups
	dstPool := []struct {
		id     string
		usable bool
	}{
		{harness.FullID(harness.ChainA, "s1"), true}, {harness.FullID(harness.ChainA, "s2"), true},
		{harness.FullID(harness.ChainB, "s1"), true}, {harness.FullID(harness.ChainB, "s2"), true},
		{harness.FullID("chainW", "s1"), true}, {harness.FullID(harness.ChainB, "ghost"), false},
	}
	nextIdx := map[string]uint64{} // accepted requests per pair (observed)
	var groups []*grp
	shape := map[string]bool{}
	nGroups := 1 + rng.Intn(3)
	// every third case: two groups (distinct sources) begun in one block with one timeout, so that they share
	// the per-height timeout list and one of them usually finishes first
	sharedExpiry := rng.Intn(3) == 0
	sharedT := []int64{3, 4, 6}[rng.Intn(3)]
	if sharedExpiry {
		nGroups = 2
		shape["shared-timeout-height"] = true
	}
	for gi := 0; gi < nGroups; gi++ {
		g := &grp{from: harness.FullID(harness.ChainC, []string{"s1", "s2"}[gi%2])}
		if gi == 1 && (sharedExpiry || rng.Intn(2) == 0) {
			g.from = harness.FullID(harness.ChainC, "s-4") // '-' also separates the parts of a transaction id
			shape["source-id-with-dash"] = true
		}
		n := 1 + rng.Intn(5)
		perm := rng.Perm(len(dstPool))
		withGhost := rng.Intn(4) == 0
		for _, pi := range perm {
			d := dstPool[pi]
			if !d.usable && !withGhost {
				continue
			}
			if len(g.children) >= n {
				break
			}
			g.children = append(g.children, &grpChild{to: d.id, usable: d.usable})
		}
		// indices are reserved now; groups of one case use distinct sources or run one after the other
		for _, c := range g.children {
			c.idx = nextIdx[g.from+"|"+c.to] + 1
			nextIdx[g.from+"|"+c.to] = c.idx
			g.keys = append(g.keys, c.to)
			g.vals = append(g.vals, c.idx)
		}
		g.declared = len(g.keys)
		switch rng.Intn(6) {
		case 0: // declared larger than what will ever be sent
			g.keys = append(g.keys, harness.FullID(harness.ChainA, "s9"))
			g.vals = append(g.vals, 1)
			g.declared++
			shape["declared-larger"] = true
		}
		g.gid = globalTxID(g.from, g.keys, g.vals)
		g.timeout = []int64{0, 0, 2, 3, 4, 6}[rng.Intn(6)]
		if sharedExpiry {
			g.timeout = sharedT
		}
		groups = append(groups, g)
		shape[fmt.Sprintf("n%d", len(g.children))] = true
		if withGhost {
			shape["begin-failed-child"] = true
		}
	}
	pier := harness.User(0)
	type sub struct {
		g    *grp
		c    *grpChild
		kind string
	}
	readInfo := func(gid string) *txInfoRec {
		d := world.R.DumpState()
		k := string(harness.AddrTxMgr.Bytes()) + "global-tx-" + gid
		v, ok := d[k]
		if !ok {
			return nil
		}
		r := &txInfoRec{}
		if json.Unmarshal(v, r) != nil {
			return nil
		}
		return r
	}
	isFailState := func(s int) bool {
		return s == model.StBeginFailure || s == model.StFailure || s == model.StBeginRollback || s == model.StRollback
	}
	for b := 0; b < 26; b++ {
		h := world.R.Height() + 1
		var subs []sub
		n := rng.Intn(4)
		if sharedExpiry && b == 1 {
			// one child of the second group succeeds early: at the expiry its destination has to be told as well
			if g := groups[1]; g.children[0].sent && !g.children[0].reported {
				subs = append(subs, sub{g, g.children[0], model.KRcpSuccess})
				g.children[0].reported = true
			}
		}
		if sharedExpiry && b == 0 {
			for _, gi := range rng.Perm(len(groups)) {
				g := groups[gi]
				subs = append(subs, sub{g, g.children[0], model.KReq})
				g.children[0].sent = true
			}
		}
		// aimed: in the block in which one group is due, a report that changes the status of another group -
		// the timeout notifications and the group notifications of that block then go to one chain
		for _, g := range groups {
			if g.timeout <= 0 || g.firstH == 0 || h != g.firstH+uint64(g.timeout) || g.failedAt != 0 || rng.Intn(3) == 0 {
				continue
			}
		aim:
			for _, o := range groups {
				if o == g || o.failedAt != 0 {
					continue
				}
				for _, c := range o.children {
					if c.sent && !c.reported {
						subs = append(subs, sub{o, c, []string{model.KRcpFailure, model.KRcpSuccess}[rng.Intn(2)]})
						c.reported = true
						shape["report-in-expiry-block-of-another-group"] = true
						break aim
					}
				}
			}
		}
		for i := 0; i < n; i++ {
			g := groups[rng.Intn(len(groups))]
			c := g.children[rng.Intn(len(g.children))]
			switch x := rng.Intn(10); {
			case x < 5 && !c.sent:
				subs = append(subs, sub{g, c, model.KReq})
				c.sent = true
			case x < 5:
				// child already sent: report for it
				fallthrough
			default:
				if !c.sent {
					// unknown child report (never begun)
					subs = append(subs, sub{g, c, model.KRcpSuccess})
					shape["report-unbegun-child"] = true
					continue
				}
				kind := []string{model.KRcpSuccess, model.KRcpSuccess, model.KRcpSuccess, model.KRcpFailure, model.KRcpRollbk}[rng.Intn(5)]
				if c.reported {
					shape["duplicate-or-late-report"] = true
				}
				subs = append(subs, sub{g, c, kind})
				c.reported = true
			}
		}
		var txs []pb.Transaction
		var descs []string
		for _, s := range subs {
			typ := map[string]pb.IBTP_Type{model.KReq: pb.IBTP_INTERCHAIN, model.KRcpSuccess: pb.IBTP_RECEIPT_SUCCESS, model.KRcpFailure: pb.IBTP_RECEIPT_FAILURE, model.KRcpRollbk: pb.IBTP_RECEIPT_ROLLBACK}[s.kind]
			ib := harness.MkIBTP(s.g.from, s.c.to, s.c.idx, typ, s.g.timeout)
			ib.Group = &pb.StringUint64Map{Keys: s.g.keys, Vals: s.g.vals}
			txs = append(txs, world.IBTPTx(pier, ib, []byte{1, 2}))
			descs = append(descs, fmt.Sprintf("%s %s->%s#%d", s.kind, s.g.from[5:], s.c.to[5:], s.c.idx))
		}
		hist = append(hist, fmt.Sprintf("block %d: %s", h, strings.Join(descs, " | ")))
		w.Step(hist[len(hist)-1])
		res, err := world.Exec(txs...)
		if err != nil {
			viol("exec:error", err.Error())
			return
		}
		w.Count("blocks", 1)
		// what the chains are actually told goes through the router: its delivery sets for this block
		// (live subscription and replay query) must carry exactly what the executor recorded
		for _, f := range world.R.TakeRouterFindings() {
			if f.Part == "timeout" {
				viol("timeout:delivery:"+f.Sig, f.Detail) // C06's part of the delivery sets
				continue
			}
			viol("notify:"+f.Sig, f.Detail)
		}
		w.Count("router_blocks_checked", 1)
		if debug {
			d := world.R.DumpState()
			pre := string(harness.AddrTxMgr.Bytes())
			for _, k := range harness.SortedKeys(d) {
				if strings.HasPrefix(k, pre+"timeout-") || strings.HasPrefix(k, pre+"global-tx") {
					fmt.Fprintf(os.Stderr, "   h=%d %s = %s\n", h, k[20:], string(d[k]))
				}
			}
			for i, s := range subs {
				fmt.Fprintf(os.Stderr, "   h=%d tx%d %s T=%d -> %v %.80s\n", h, i, descs[i], s.g.timeout, res.Receipts[i].Status, string(res.Receipts[i].Ret))
			}
			fmt.Fprintf(os.Stderr, "   h=%d meta %s\n", h, canonicalMeta(res.Meta))
		}
		// ---- accepted events (taken from the receipts) in transaction order
		for i, s := range subs {
			ok := res.Receipts[i].Status == pb.Receipt_SUCCESS
			w.Count("child_events", 1)
			if !ok {
				w.Count("child_events_rejected", 1)
				continue
			}
			pos := [2]int{int(h), i}
			switch s.kind {
			case model.KReq:
				s.c.begun = true
				s.c.begunAt = pos
				if s.g.firstH == 0 {
					s.g.firstH = h
				}
				if !s.c.usable && s.g.failedAt == 0 {
					s.g.failedAt, s.g.failEv = h, pos
					shape["fail-by-begin"] = true
				}
			case model.KRcpSuccess:
				if s.g.failedAt == 0 {
					s.c.success = true
					s.c.succAt = pos
				}
			case model.KRcpFailure:
				if s.g.failedAt == 0 {
					s.g.failedAt, s.g.failEv = h, pos
					shape["fail-by-receipt"] = true
				}
			}
		}
		// ---- expiry: first child begun at firstH with timeout T
		notified := func(chain string) map[string]bool {
			out := map[string]bool{}
			if sl := res.Meta.MultiTxCounter[chain]; sl != nil {
				for _, x := range sl.Slice {
					out[x] = true
				}
			}
			if sl := res.Meta.TimeoutCounter[chain]; sl != nil {
				for _, x := range sl.Slice {
					out[x] = true
				}
			}
			if sl := res.Meta.Counter[chain]; sl != nil {
				for _, vi := range sl.Slice {
					if int(vi.Index) < len(subs) {
						s := subs[vi.Index]
						out[s.c.id(s.g.from)] = true
					}
				}
			}
			return out
		}
		for _, g := range groups {
			if g.firstH == 0 {
				continue
			}
			info := readInfo(g.gid)
			w.Count("obs_group_state_reads", 1)
			if info == nil {
				viol("group:record-missing", fmt.Sprintf("after block %d the record of group %s (first child begun at %d) cannot be read", h, g.gid, g.firstH))
				continue
			}
			if g.failedAt == 0 && g.timeout > 0 && h == g.firstH+uint64(g.timeout) {
				// the group as a whole expires now unless it already finished - decided from the accepted events alone
				// (every declared child begun and answered by a success receipt), not from what the chain says
				// about the group
				allDone := true
				for _, c := range g.children {
					if !c.success {
						allDone = false
					}
				}
				if !(allDone && len(g.children) == g.declared) {
					g.failedAt, g.failEv = h, [2]int{int(h), 1 << 30}
					shape["fail-by-timeout"] = true
				}
			}
			w.SetAdd("global_states_seen", model.StName[info.GlobalState])
			nBegun, nSucc := 0, 0
			for _, c := range g.children {
				if c.begun {
					nBegun++
				}
				if c.success {
					nSucc++
				}
			}
			if info.GlobalState == model.StSuccess {
				g.sawSucc = true
				w.Count("groups_succeeded_obs", 1)
				if nBegun != g.declared || nSucc != g.declared {
					viol("group:success-without-all-children", fmt.Sprintf("after block %d group %s is SUCCESS with %d of %d declared children begun and %d success receipts accepted", h, g.gid, nBegun, g.declared, nSucc))
				}
				if g.failedAt != 0 {
					viol("group:success-after-failure", fmt.Sprintf("after block %d group %s is SUCCESS although a child failed / the group timed out in block %d", h, g.gid, g.failedAt))
				}
			}
			if g.failedAt != 0 && g.failedAt <= h {
				for _, c := range g.children {
					if !c.begun {
						continue
					}
					st, ok := info.ChildTxInfo[c.id(g.from)]
					if !ok {
						viol("group:child-missing", fmt.Sprintf("after block %d child %s of group %s is not in the group record", h, c.id(g.from), g.gid))
						continue
					}
					if !isFailState(st) {
						viol("group:child-not-failed:"+model.StName[st], fmt.Sprintf("after block %d (group failed in block %d) child %s still has status %s", h, g.failedAt, c.id(g.from), model.StName[st]))
						if g.failEv[1] == 1<<30 {
							// the group failed by expiry: "moved to BEGIN_ROLLBACK as a whole" is C06's clause too
							viol("timeout:group-child-not-rolled-back:"+model.StName[st], fmt.Sprintf("after block %d (group timed out in block %d) child %s still has status %s", h, g.failedAt, c.id(g.from), model.StName[st]))
						}
					}
				}
			}
			// ---- C06 for the group as a whole: its begun children are listed as timed out for the source
			// chain exactly once, in block firstH+T, if the group has neither finished nor failed before;
			// in no other block and for no other group
			{
				due := g.timeout > 0 && h == g.firstH+uint64(g.timeout)
				byTimeoutNow := g.failedAt == h && g.failEv == [2]int{int(h), 1 << 30}
				listed := map[string]int{}
				if sl := res.Meta.TimeoutCounter[chainOf(g.from)]; sl != nil {
					for _, x := range sl.Slice {
						listed[x]++
					}
				}
				for _, c := range g.children {
					if !c.begun {
						continue
					}
					n := listed[c.id(g.from)]
					w.Count("obs_group_timeout_checks", 1)
					switch {
					case n > 0 && !(due && byTimeoutNow):
						why := fmt.Sprintf("its group is not due now (first child begun in block %d, T=%d)", g.firstH, g.timeout)
						if due {
							why = fmt.Sprintf("its group had already failed in block %d / finished", g.failedAt)
						}
						viol("timeout-list:group-child-listed-but-not-due", fmt.Sprintf("block %d: child %s of group %s is in the timeout notifications of %s although %s", h, c.id(g.from), g.gid, chainOf(g.from), why))
					case n > 1:
						viol("timeout-list:group-child-listed-twice", fmt.Sprintf("block %d: child %s of group %s is listed %d times", h, c.id(g.from), g.gid, n))
					case n == 0 && due && byTimeoutNow:
						viol("timeout-list:group-child-missing", fmt.Sprintf("block %d: group %s expires now (first child begun in block %d, T=%d) but its child %s is not in the timeout notifications of %s: %v", h, g.gid, g.firstH, g.timeout, c.id(g.from), chainOf(g.from), listed))
					}
					if n == 1 && due && byTimeoutNow {
						w.Count("obs_group_children_timed_out", 1)
					}
				}
				// a group that failed before its timeout height is never touched by the timeout mechanism
				if g.failedAt != 0 && g.failedAt < h && !byTimeoutNow {
					for _, c := range g.children {
						if st, ok := info.ChildTxInfo[c.id(g.from)]; ok && c.begun {
							if prev, had := g.lastChildSt[c.id(g.from)]; had && prev == model.StBeginFailure && st == model.StBeginRollback {
								viol("timeout:failed-group-child-altered", fmt.Sprintf("block %d: child %s of group %s (failed in block %d) moved BEGIN_FAILURE -> BEGIN_ROLLBACK", h, c.id(g.from), g.gid, g.failedAt))
							}
						}
					}
				}
				if g.lastChildSt == nil {
					g.lastChildSt = map[string]int{}
				}
				for cid, st := range info.ChildTxInfo {
					g.lastChildSt[cid] = int(st)
				}
			}
			if g.failedAt == h {
				w.Count("groups_failed_obs", 1)
				srcN := notified(chainOf(g.from))
				for _, c := range g.children {
					if !c.begun || !before(c.begunAt, g.failEv) {
						continue
					}
					w.Count("obs_src_notifications_required", 1)
					if !srcN[c.id(g.from)] {
						viol("notify:source-not-told", fmt.Sprintf("block %d: group %s fails here, the source chain %s is not told to roll back child %s (begun earlier); notified: %v meta: %s", h, g.gid, chainOf(g.from), c.id(g.from), keysOf(srcN), canonicalMeta(res.Meta)))
					}
					if c.success && before(c.succAt, g.failEv) {
						w.Count("obs_dst_notifications_required", 1)
						dstN := notified(chainOf(c.to))
						if !dstN[c.id(g.from)] {
							viol("notify:destination-not-told", fmt.Sprintf("block %d: group %s fails here, child %s had already succeeded on chain %s but that chain is not told to roll it back; meta: %s", h, g.gid, c.id(g.from), chainOf(c.to), canonicalMeta(res.Meta)))
						}
					}
				}
			}
		}
	}
	var sh []string
	for k := range shape {
		sh = append(sh, k)
	}
	sort.Strings(sh)
	if id == a.From {
		w.Sample(map[string]interface{}{"case": id, "history": hist})
	}
	w.CaseDone(fmt.Sprintf("audit%v|%s", !opts.NoAudit, strings.Join(sh, ",")), true)
}

func keysOf(m map[string]bool) []string {
	var out []string
	for k := range m {
		out = append(out, k)
	}
	sort.Strings(out)
	return out
}
