package main

import (
	"bufio"
	"encoding/base64"
	"encoding/json"
	"flag"
	"fmt"
	"io/ioutil"
	"os"
	"path/filepath"
	"strings"
	"sync"
	"syscall"
	"time"

	"github.com/ethereum/go-ethereum/event"
	"github.com/libp2p/go-libp2p-core/peer"
	"github.com/meshplus/bitxhub-core/order"
	peermgr "github.com/meshplus/bitxhub-core/peer-mgr"
	"github.com/meshplus/bitxhub-kit/types"
	"github.com/meshplus/bitxhub-model/pb"
	"github.com/meshplus/bitxhub/internal/app"
	"github.com/meshplus/bitxhub/internal/model/events"
	"github.com/meshplus/bitxhub/internal/repo"
	"github.com/meshplus/bitxhub/pkg/order/etcdraft"
	"github.com/meshplus/bitxhub/pkg/order/solo"
	"github.com/sirupsen/logrus"
)

func init() { workloads["ord-node"] = ordNode }

// ---- wire protocol between the network (parent) and a replica process (child): JSON lines.
type wireMsg struct {
	T    string `json:"t"` // parent->child: msg | tx | req | resp | stop ; child->parent: send | bcast | req | resp | deliver | ready | leader
	To   uint64 `json:"to,omitempty"`
	From uint64 `json:"from,omitempty"`
	ID   uint64 `json:"id,omitempty"`
	Data string `json:"data,omitempty"` // base64
	H    uint64 `json:"h,omitempty"`
}

// ---- durable per-replica delivery log (the stand-in executor's "ledger")
type ordLogRec struct {
	Inc int      `json:"inc"` // incarnation
	H   uint64   `json:"h"`
	TS  int64    `json:"ts"`
	Txs []string `json:"txs"` // tx hashes
	Raw string   `json:"raw"` // base64(pb.Transactions.Marshal), needed to serve block sync requests
	Src string   `json:"src"` // commit | sync
}

func readOrdLog(path string) []ordLogRec {
	var out []ordLogRec
	f, err := os.Open(path)
	if err != nil {
		return nil
	}
	defer f.Close()
	sc := bufio.NewScanner(f)
	sc.Buffer(make([]byte, 1<<20), 64<<20)
	for sc.Scan() {
		var r ordLogRec
		if json.Unmarshal(sc.Bytes(), &r) == nil && r.H > 0 {
			out = append(out, r)
		}
	}
	return out
}

// pipeNet implements the order layer's peer manager over the parent's pipes.
type pipeNet struct {
	id    uint64
	n     int
	mu    sync.Mutex
	out   *bufio.Writer
	reqID uint64
	wait  map[uint64]chan []byte
	feed  event.Feed // incoming order messages, for the real feed hub (-feedhub)
}

func (p *pipeNet) emit(m *wireMsg) {
	b, _ := json.Marshal(m)
	p.mu.Lock()
	p.out.Write(b)
	p.out.WriteByte('\n')
	p.out.Flush()
	p.mu.Unlock()
}

func (p *pipeNet) Start() error { return nil }
func (p *pipeNet) Stop() error  { return nil }
func (p *pipeNet) AsyncSend(to peermgr.KeyType, m *pb.Message) error {
	b, err := m.Marshal()
	if err != nil {
		return err
	}
	id, _ := to.(uint64)
	p.emit(&wireMsg{T: "send", To: id, Data: base64.StdEncoding.EncodeToString(b)})
	return nil
}
func (p *pipeNet) Send(to peermgr.KeyType, m *pb.Message) (*pb.Message, error) {
	b, err := m.Marshal()
	if err != nil {
		return nil, err
	}
	id, _ := to.(uint64)
	p.mu.Lock()
	p.reqID++
	rid := p.reqID
	ch := make(chan []byte, 1)
	p.wait[rid] = ch
	p.mu.Unlock()
	p.emit(&wireMsg{T: "req", To: id, ID: rid, Data: base64.StdEncoding.EncodeToString(b)})
	select {
	case data := <-ch:
		if data == nil {
			return nil, fmt.Errorf("peer %d unreachable", id)
		}
		res := &pb.Message{}
		if err := res.Unmarshal(data); err != nil {
			return nil, err
		}
		return res, nil
	case <-time.After(2 * time.Second):
		p.mu.Lock()
		delete(p.wait, rid)
		p.mu.Unlock()
		return nil, fmt.Errorf("request to peer %d timed out", id)
	}
}
func (p *pipeNet) CountConnectedPeers() uint64                   { return uint64(p.n - 1) }
func (p *pipeNet) Peers() map[string]*peer.AddrInfo              { return map[string]*peer.AddrInfo{} }
func (p *pipeNet) AddNode(uint64, *pb.VpInfo)                    {}
func (p *pipeNet) DelNode(uint64)                                {}
func (p *pipeNet) Disconnect(map[uint64]*pb.VpInfo)              {}
func (p *pipeNet) OrderPeers() map[uint64]*pb.VpInfo             { return map[uint64]*pb.VpInfo{} }
func (p *pipeNet) UpdateRouter(map[uint64]*pb.VpInfo, bool) bool { return false }
func (p *pipeNet) SubscribeOrderMessage(ch chan<- peermgr.OrderMessageEvent) event.Subscription {
	return p.feed.Subscribe(ch)
}
func (p *pipeNet) OtherPeers() map[uint64]*peer.AddrInfo {
	out := map[uint64]*peer.AddrInfo{}
	for i := 1; i <= p.n; i++ {
		if uint64(i) != p.id {
			out[uint64(i)] = &peer.AddrInfo{}
		}
	}
	return out
}
func (p *pipeNet) Broadcast(m *pb.Message) error {
	b, err := m.Marshal()
	if err != nil {
		return err
	}
	p.emit(&wireMsg{T: "bcast", Data: base64.StdEncoding.EncodeToString(b)})
	return nil
}

const raftToml = `[timed_gen_block]
enable = %v
block_timeout = "0.08s"

[raft]
batch_timeout               = "0.03s"
tick_timeout                = "0.02s"
election_tick               = 10
heartbeat_tick              = 1
max_size_per_msg            = 1048576
max_inflight_msgs           = 500
check_quorum                = true
pre_vote                    = true
disable_proposal_forwarding = true

    [raft.mempool]
        batch_size          = %d
        pool_size           = 50000
        tx_slice_size       = 2
        tx_slice_timeout    = "0.01s"

    [raft.syncer]
        sync_blocks = %d
        snapshot_count = %d
`

const soloToml = `[timed_gen_block]
enable = %v
block_timeout = "0.08s"

[solo]
batch_timeout          = "0.03s"

   [solo.mempool]
        batch_size          = %d
        pool_size           = 50000
        tx_slice_size       = 2
        tx_slice_timeout    = "0.01s"
`

func killSelfIf(point string) {
	if os.Getenv("VERIF_ORD_KILL") == point {
		syscall.Kill(os.Getpid(), syscall.SIGKILL)
		select {}
	}
}

// ordNode is one replica process: the real order node + a stand-in executor with a durable log.
func ordNode(args []string) int {
	fs := flag.NewFlagSet("ord-node", flag.ExitOnError)
	id := fs.Uint64("id", 1, "")
	n := fs.Int("n", 1, "")
	dir := fs.String("dir", "", "")
	typ := fs.String("type", "raft", "raft|solo")
	batch := fs.Int("batch", 4, "")
	fetch := fs.Int("fetch", 3, "")
	snapc := fs.Int("snap", 5, "")
	inc := fs.Int("inc", 0, "incarnation")
	timed := fs.Bool("timed", false, "timed block generation (empty blocks allowed)")
	lagMs := fs.Int("lag", 0, "upper bound (ms) of the stand-in executor's delay between persisting a block and reporting it")
	feedhub := fs.Bool("feedhub", false, "blocks and peer messages go through the node's real feed hub (internal/app) instead of a loop of this harness")
	unordered := fs.Bool("announce-unordered", false, "with -feedhub: executed blocks are announced from one goroutine each, as the real executor does; announcements may overtake each other")
	killAfter := fs.Int("kill-after-deliveries", 0, "SIGKILL itself at VERIF_ORD_KILL point on the n-th delivery of this incarnation")
	fs.Parse(args)
	os.MkdirAll(*dir, 0755)
	if *typ == "raft" {
		ioutil.WriteFile(filepath.Join(*dir, "order.toml"), []byte(fmt.Sprintf(raftToml, *timed, *batch, *fetch, *snapc)), 0644)
	} else {
		ioutil.WriteFile(filepath.Join(*dir, "order.toml"), []byte(fmt.Sprintf(soloToml, *timed, *batch)), 0644)
	}
	logPath := filepath.Join(*dir, "delivered.jsonl")
	recs := readOrdLog(logPath)
	var last uint64
	byH := map[uint64]ordLogRec{}
	nonces := map[string]uint64{}
	for _, r := range recs {
		if r.H > last {
			last = r.H
		}
		byH[r.H] = r
	}
	applyNonces := func(raw string) {
		b, _ := base64.StdEncoding.DecodeString(raw)
		txs := &pb.Transactions{}
		if txs.Unmarshal(b) == nil {
			for _, tx := range txs.Transactions {
				if tx.GetNonce()+1 > nonces[tx.GetFrom().String()] {
					nonces[tx.GetFrom().String()] = tx.GetNonce() + 1
				}
			}
		}
	}
	for _, r := range recs {
		applyNonces(r.Raw)
	}
	var mu sync.Mutex
	lf, _ := os.OpenFile(logPath, os.O_CREATE|os.O_WRONLY|os.O_APPEND, 0644)
	net := &pipeNet{id: *id, n: *n, out: bufio.NewWriter(os.Stdout), wait: map[uint64]chan []byte{}}
	lg := logrus.New()
	lg.SetOutput(os.Stderr)
	lg.SetLevel(logrus.InfoLevel)
	nodes := map[uint64]*pb.VpInfo{}
	for i := 1; i <= *n; i++ {
		nodes[uint64(i)] = &pb.VpInfo{Id: uint64(i), Pid: fmt.Sprintf("pid-%d", i), Account: fmt.Sprintf("acct-%d", i)}
	}
	blockOf := func(h uint64) (*pb.Block, error) {
		mu.Lock()
		r, ok := byH[h]
		mu.Unlock()
		if !ok {
			return nil, fmt.Errorf("no block %d", h)
		}
		b, _ := base64.StdEncoding.DecodeString(r.Raw)
		txs := &pb.Transactions{}
		if len(b) > 0 {
			if err := txs.Unmarshal(b); err != nil {
				return nil, err
			}
		}
		blk := &pb.Block{BlockHeader: &pb.BlockHeader{Number: h, Timestamp: r.TS}, Transactions: txs}
		blk.BlockHash = blk.Hash()
		return blk, nil
	}
	opts := []order.Option{
		order.WithRepoRoot(*dir), order.WithStoragePath(filepath.Join(*dir, "storage")), order.WithNodes(nodes), order.WithID(*id),
		order.WithPeerManager(net), order.WithLogger(lg), order.WithApplied(last), order.WithDigest("digest"),
		order.WithGetChainMetaFunc(func() *pb.ChainMeta {
			mu.Lock()
			defer mu.Unlock()
			return &pb.ChainMeta{Height: last, BlockHash: types.NewHash([]byte(fmt.Sprintf("%032d", last)))}
		}),
		order.WithGetBlockByHeightFunc(func(h uint64, full bool) (*pb.Block, error) { return blockOf(h) }),
		order.WithGetAccountNonceFunc(func(a *types.Address) uint64 {
			mu.Lock()
			defer mu.Unlock()
			return nonces[a.String()]
		}),
	}
	var node order.Order
	var err error
	if *typ == "solo" {
		node, err = solo.NewNode(opts...)
	} else {
		node, err = etcdraft.NewNode(opts...)
	}
	if err != nil {
		fmt.Fprintln(os.Stderr, "NewNode:", err)
		return 4
	}
	// ---- stand-in executor
	delivered := 0
	var hubExec *feedExec
	deliver := func(ev *pb.CommitEvent) {
		{
			if ev == nil || ev.Block == nil {
				return
			}
			h := ev.Block.BlockHeader.Number
			var hashes []string
			var hl []*types.Hash
			for _, tx := range ev.Block.Transactions.Transactions {
				hashes = append(hashes, tx.GetHash().String())
				hl = append(hl, tx.GetHash())
			}
			raw, _ := ev.Block.Transactions.Marshal()
			delivered++
			if *killAfter > 0 && delivered == *killAfter {
				killSelfIf("before-log")
			}
			rec := ordLogRec{Inc: *inc, H: h, TS: ev.Block.BlockHeader.Timestamp, Txs: hashes, Raw: base64.StdEncoding.EncodeToString(raw), Src: "commit"}
			b, _ := json.Marshal(rec)
			lf.Write(append(b, '\n'))
			lf.Sync()
			mu.Lock()
			if _, dup := byH[h]; !dup {
				byH[h] = rec
			}
			if h > last {
				last = h
			}
			mu.Unlock()
			applyNoncesLocked := func() {
				mu.Lock()
				applyNonces(rec.Raw)
				mu.Unlock()
			}
			applyNoncesLocked()
			if *killAfter > 0 && delivered == *killAfter {
				killSelfIf("after-log")
			}
			net.emit(&wireMsg{T: "deliver", H: h})
			// the real executor needs time to execute a block: the report to the order layer lags behind
			// the delivery (ordering runs ahead of execution)
			lag := time.Duration(0)
			if *lagMs > 0 {
				lag = time.Duration((h*2654435761)%uint64(*lagMs*1000)) * time.Microsecond
			}
			if hubExec != nil {
				// the hub reports to the order layer when the executor announces the executed block
				blk := &pb.Block{BlockHeader: &pb.BlockHeader{Number: h, Timestamp: ev.Block.BlockHeader.Timestamp}, Transactions: ev.Block.Transactions, BlockHash: types.NewHash([]byte(fmt.Sprintf("%032d", h)))}
				hubExec.announce(lag, events.ExecutedEvent{Block: blk, TxHashList: hl})
				return
			}
			time.Sleep(lag)
			node.ReportState(h, types.NewHash([]byte(fmt.Sprintf("%032d", h))), hl)
		}
	}
	if *feedhub {
		hubExec = &feedExec{deliver: deliver, q: make(chan func(), 4096), unordered: *unordered}
		go hubExec.run()
		hub := app.VerifFeedHub(node, hubExec, nopRouter{}, &feedPM{pipeNet: net}, &repo.Repo{}, lg)
		hub.VerifStart()
	} else {
		go func() {
			for ev := range node.Commit() {
				deliver(ev)
			}
		}()
	}
	go func() {
		if err := node.Start(); err != nil {
			fmt.Fprintln(os.Stderr, "Start:", err)
			os.Exit(5)
		}
		net.emit(&wireMsg{T: "ready"})
	}()
	// ---- input loop
	in := bufio.NewScanner(os.Stdin)
	in.Buffer(make([]byte, 1<<20), 64<<20)
	for in.Scan() {
		var m wireMsg
		if json.Unmarshal(in.Bytes(), &m) != nil {
			continue
		}
		data, _ := base64.StdEncoding.DecodeString(m.Data)
		switch m.T {
		case "msg":
			pm := &pb.Message{}
			if pm.Unmarshal(data) == nil {
				if *feedhub {
					net.feed.Send(peermgr.OrderMessageEvent{Data: pm.Data})
				} else {
					go node.Step(pm.Data)
				}
			}
		case "tx":
			tx, err := pb.UnmarshalTx(data)
			if err != nil {
				fmt.Fprintln(os.Stderr, "bad tx:", err)
			}
			if err == nil {
				go func() {
					// a client retries a refused transaction (no leader yet) a few times
					for try := 0; try < 20; try++ {
						err := node.Prepare(tx)
						if err == nil {
							return
						}
						if strings.Contains(err.Error(), "full") {
							fmt.Fprintln(os.Stderr, "prepare:", err)
							return
						}
						time.Sleep(100 * time.Millisecond)
					}
				}()
			}
		case "req": // a peer asks for blocks
			pm := &pb.Message{}
			resp := &pb.Message{}
			if pm.Unmarshal(data) == nil && pm.Type == pb.Message_GET_BLOCKS {
				req := &pb.GetBlocksRequest{}
				if req.Unmarshal(pm.Data) == nil {
					res := &pb.GetBlocksResponse{}
					for h := req.Start; h <= req.End; h++ {
						if b, err := blockOf(h); err == nil {
							res.Blocks = append(res.Blocks, b)
						}
					}
					rb, _ := res.Marshal()
					resp = &pb.Message{Type: pb.Message_GET_BLOCKS_ACK, Data: rb}
				}
			}
			rb, _ := resp.Marshal()
			net.emit(&wireMsg{T: "resp", To: m.From, ID: m.ID, Data: base64.StdEncoding.EncodeToString(rb)})
		case "resp":
			net.mu.Lock()
			ch := net.wait[m.ID]
			delete(net.wait, m.ID)
			net.mu.Unlock()
			if ch != nil {
				if m.Data == "" {
					ch <- nil
				} else {
					ch <- data
				}
			}
		case "stop":
			return 0
		}
	}
	return 0
}
