package main

import (
	"time"

	"github.com/ethereum/go-ethereum/event"
	"github.com/meshplus/bitxhub-core/agency"
	"github.com/meshplus/bitxhub-model/pb"
	"github.com/meshplus/bitxhub/internal/model/events"
	pkgpeermgr "github.com/meshplus/bitxhub/pkg/peermgr"
	network "github.com/meshplus/go-lightp2p"
)

// feedExec is the stand-in executor behind the real feed hub (internal/app: start / listenEvent): the hub
// hands it every block the order layer commits, and forwards what it announces as executed back to the order
// layer (ReportState). Like the real executor it takes a block, returns, and announces later.
type feedExec struct {
	deliver func(*pb.CommitEvent)
	blocks  event.Feed
	q       chan func()
	// the real executor announces every executed block from a goroutine of its own (go blockFeed.Send): with
	// unordered set the stand-in does the same, and announcements overtake each other
	unordered bool
}

func (f *feedExec) Start() error { return nil }
func (f *feedExec) Stop() error  { return nil }

// ExecuteBlock records the block at once: the order of these calls is what C20 is about. The short pause
// before that is harmless for a hub that calls from one goroutine and separates callers that race.
func (f *feedExec) ExecuteBlock(ev *pb.CommitEvent) {
	if ev != nil && ev.Block != nil {
		time.Sleep(time.Duration((ev.Block.BlockHeader.Number*40503)%400) * time.Microsecond)
	}
	f.deliver(ev)
}

// announce queues the executed-event of a block: announcements leave in the order of the deliveries (unless unordered).
func (f *feedExec) announce(lag time.Duration, ev events.ExecutedEvent) {
	if f.unordered {
		go func() {
			time.Sleep(lag)
			f.blocks.Send(ev)
		}()
		return
	}
	f.q <- func() {
		time.Sleep(lag)
		f.blocks.Send(ev)
	}
}

func (f *feedExec) run() {
	for fn := range f.q {
		fn()
	}
}

func (f *feedExec) ApplyReadonlyTransactions([]pb.Transaction) []*pb.Receipt { return nil }
func (f *feedExec) SubscribeBlockEvent(ch chan<- events.ExecutedEvent) event.Subscription {
	return f.blocks.Subscribe(ch)
}
func (f *feedExec) SubscribeBlockEventForRemote(chan<- events.ExecutedEvent) event.Subscription {
	return idleSub()
}
func (f *feedExec) SubscribeLogsEvent(chan<- []*pb.EvmLog) event.Subscription     { return idleSub() }
func (f *feedExec) SubscribeNodeEvent(chan<- events.NodeEvent) event.Subscription { return idleSub() }
func (f *feedExec) SubscribeAuditEvent(chan<- *pb.AuditTxInfo) event.Subscription { return idleSub() }
func (f *feedExec) GetBoltContracts() map[string]agency.Contract                  { return nil }

func idleSub() event.Subscription {
	return event.NewSubscription(func(q <-chan struct{}) error { <-q; return nil })
}

// nopRouter: the hub passes executed blocks on to the router; nothing of it is observed here.
type nopRouter struct{}

func (nopRouter) Start() error                                  { return nil }
func (nopRouter) Stop() error                                   { return nil }
func (nopRouter) PutBlockAndMeta(*pb.Block, *pb.InterchainMeta) {}
func (nopRouter) AddPier(string) (chan *pb.InterchainTxWrappers, error) {
	return make(chan *pb.InterchainTxWrappers), nil
}
func (nopRouter) RemovePier(string)                                           {}
func (nopRouter) GetBlockHeader(uint64, uint64, chan<- *pb.BlockHeader) error { return nil }
func (nopRouter) GetInterchainTxWrappers(string, uint64, uint64, chan<- *pb.InterchainTxWrappers) error {
	return nil
}

// feedPM widens pipeNet to the node's full peer-manager interface (the TSS and pier parts stay idle).
type feedPM struct{ *pipeNet }

func (p *feedPM) SubscribeTssMessage(chan<- *pb.Message) event.Subscription   { return idleSub() }
func (p *feedPM) SubscribeTssSignRes(chan<- *pb.Message) event.Subscription   { return idleSub() }
func (p *feedPM) SubscribeTssCulprits(chan<- *pb.Message) event.Subscription  { return idleSub() }
func (p *feedPM) SubscribeTssKeygenReq(chan<- *pb.Message) event.Subscription { return idleSub() }
func (p *feedPM) GetLocalID() uint64                                          { return p.id }
func (p *feedPM) SendWithStream(network.Stream, *pb.Message) error            { return nil }
func (p *feedPM) PierManager() pkgpeermgr.PierManager                         { return nil }
func (p *feedPM) ReConfig(interface{}) error                                  { return nil }
