package main

import (
	"encoding/json"
	"fmt"
	"math/big"
	"math/rand"
	"os"
	"sort"
	"strings"

	"github.com/meshplus/bitxhub-model/pb"
	"github.com/meshplus/bitxhub/verif/harness"
	"github.com/meshplus/bitxhub/verif/model"
	"github.com/meshplus/bitxhub/verif/vlog"
)

func init() { workloads["lc16"] = lc16Workload }

type lcObj struct {
	class string // appchain | service | role | node | rule
	id    string
	chain string // owning chain ("" for role/node)
}

type l16 struct {
	w      *vlog.W
	world  *harness.World
	rng    *rand.Rand
	viol   func(sig, detail string)
	objs   []lcObj
	status map[string]string
	open   []string          // open proposal ids
	objOf  map[string]string // proposal -> object id
	hist   []string
	req    map[string]uint64 // accepted requests per pair
	shape  map[string]bool
	opts   harness.Options
	dir    string
	// the service whose black list was last replaced at once, the sources named by any of its lists so
	// far, and how many probes are still aimed at those pairs
	blDst    string
	blSrcs   map[string][]string
	blAim    int
	rule2    map[string]string // chain -> address of its second registered rule
	votedBy  map[string]map[int]bool
	aimChain string
	aimN     int
	aimSvc   string // a service of aimChain the aimed probes prefer
	hub      bool   // the other BitXHub is registered: some probes arrive from it
	allPids  []string
	script   []func() (pb.Transaction, string, []string)
}

// scriptFrozenChainRuleChange: freeze an appchain (approved), then change its master rule (approved):
// the chain stays frozen and so do its services.
func (l *l16) scriptFrozenChainRuleChange(chain string) {
	w := l.world
	approve := func(i int) func() (pb.Transaction, string, []string) {
		return func() (pb.Transaction, string, []string) {
			if len(l.open) == 0 {
				return nil, "", nil
			}
			pid := l.open[len(l.open)-1]
			return w.BVM(harness.AdminKey(i), harness.AddrGov, "Vote", pb.String(pid), pb.String("approve"), pb.String("r")), fmt.Sprintf("vote approve on %s (scripted)", pid), []string{l.objOf[pid], chain}
		}
	}
	l.script = append(l.script, func() (pb.Transaction, string, []string) {
		return w.BVM(harness.AdminKey(0), harness.AddrAppchain, "FreezeAppchain", pb.String(chain), pb.String("r")), "FreezeAppchain " + chain + " (scripted)", []string{chain}
	}, approve(1), approve(2), approve(3), func() (pb.Transaction, string, []string) {
		if l.rule2[chain] == "" {
			return nil, "", nil
		}
		return w.BVM(harness.ChainAdmin(chain), harness.AddrRule, "UpdateMasterRule", pb.String(chain), pb.String(l.rule2[chain]), pb.String("r")), "UpdateMasterRule " + chain + " (scripted, chain frozen)", []string{chain, l.rule2[chain]}
	}, approve(0), approve(1), approve(2))
}

// scriptApprove: admin i approves the newest open proposal concerning obj (any, if obj is empty).
func (l *l16) scriptApprove(i int, obj, chain string) func() (pb.Transaction, string, []string) {
	return func() (pb.Transaction, string, []string) {
		for k := len(l.open) - 1; k >= 0; k-- {
			if pid := l.open[k]; obj == "" || l.objOf[pid] == obj {
				return l.world.BVM(harness.AdminKey(i), harness.AddrGov, "Vote", pb.String(pid), pb.String("approve"), pb.String("r")), fmt.Sprintf("vote approve on %s (scripted)", pid), []string{l.objOf[pid], chain}
			}
		}
		return nil, "", nil
	}
}

// scriptServiceRegisteredOnFrozenChain: a service registration is still open when its appchain is frozen
// (approved); the registration is approved afterwards: the new service belongs to an unusable chain.
func (l *l16) scriptServiceRegisteredOnFrozenChain(chain string) {
	w := l.world
	s3 := chain + ":s3"
	l.script = append(l.script, func() (pb.Transaction, string, []string) {
		return w.BVM(harness.ChainAdmin(chain), harness.AddrService, "RegisterService", pb.String(chain), pb.String("s3"), pb.String("name-"+s3), pb.String("CallContract"), pb.String("i"), pb.Uint64(1), pb.String(""), pb.String("d"), pb.String("r")), "RegisterService " + s3 + " (scripted)", []string{s3}
	}, func() (pb.Transaction, string, []string) {
		return w.BVM(harness.AdminKey(0), harness.AddrAppchain, "FreezeAppchain", pb.String(chain), pb.String("r")), "FreezeAppchain " + chain + " (scripted)", []string{chain}
	}, l.scriptApprove(1, chain, chain), l.scriptApprove(2, chain, chain), l.scriptApprove(3, chain, chain),
		l.scriptApprove(0, s3, chain), l.scriptApprove(1, s3, chain), l.scriptApprove(2, s3, chain),
		func() (pb.Transaction, string, []string) {
			l.aimChain, l.aimN, l.aimSvc = chain, 8, s3
			return nil, "", nil
		})
}

// scriptCascadeOverLoggedOutService: the chain's first service is logged out (approved), then the appchain is
// frozen and activated again (both approved): the activation announces all services of the chain in one
// transaction, and the logged-out one must stay unusable (cached and stored record).
func (l *l16) scriptCascadeOverLoggedOutService(chain string) {
	w := l.world
	s1 := chain + ":s1"
	l.script = append(l.script, func() (pb.Transaction, string, []string) {
		return w.BVM(harness.ChainAdmin(chain), harness.AddrService, "LogoutService", pb.String(s1), pb.String("r")), "LogoutService " + s1 + " (scripted)", []string{s1}
	}, l.scriptApprove(0, s1, chain), l.scriptApprove(1, s1, chain), l.scriptApprove(2, s1, chain),
		func() (pb.Transaction, string, []string) {
			return w.BVM(harness.AdminKey(0), harness.AddrAppchain, "FreezeAppchain", pb.String(chain), pb.String("r")), "FreezeAppchain " + chain + " (scripted)", []string{chain}
		}, l.scriptApprove(1, chain, chain), l.scriptApprove(2, chain, chain), l.scriptApprove(3, chain, chain),
		func() (pb.Transaction, string, []string) {
			return w.BVM(harness.ChainAdmin(chain), harness.AddrAppchain, "ActivateAppchain", pb.String(chain), pb.String("r")), "ActivateAppchain " + chain + " (scripted)", []string{chain}
		}, l.scriptApprove(0, chain, chain), l.scriptApprove(1, chain, chain), l.scriptApprove(2, chain, chain),
		func() (pb.Transaction, string, []string) {
			l.aimChain, l.aimN, l.aimSvc = chain, 8, s1
			return nil, "", nil
		})
}

// scriptServiceFrozenBeforeItsChain: a service is frozen on its own (approved), then its appchain is frozen
// (approved), then the chain's admin asks for the service's activation while the chain is still frozen: whatever
// becomes of that request, the service of a frozen appchain stays unusable (probes are aimed at it).
func (l *l16) scriptServiceFrozenBeforeItsChain(chain string) {
	w := l.world
	s1 := chain + ":s1"
	l.script = append(l.script, func() (pb.Transaction, string, []string) {
		return w.BVM(harness.AdminKey(0), harness.AddrService, "FreezeService", pb.String(s1), pb.String("r")), "FreezeService " + s1 + " (scripted)", []string{s1}
	}, l.scriptApprove(1, s1, chain), l.scriptApprove(2, s1, chain), l.scriptApprove(3, s1, chain),
		func() (pb.Transaction, string, []string) {
			return w.BVM(harness.AdminKey(0), harness.AddrAppchain, "FreezeAppchain", pb.String(chain), pb.String("r")), "FreezeAppchain " + chain + " (scripted)", []string{chain}
		}, l.scriptApprove(1, chain, chain), l.scriptApprove(2, chain, chain), l.scriptApprove(3, chain, chain),
		func() (pb.Transaction, string, []string) {
			return w.BVM(harness.ChainAdmin(chain), harness.AddrService, "ActivateService", pb.String(s1), pb.String("r")), "ActivateService " + s1 + " on the frozen chain (scripted)", []string{s1}
		}, l.scriptApprove(0, s1, chain), l.scriptApprove(1, s1, chain), l.scriptApprove(2, s1, chain),
		func() (pb.Transaction, string, []string) {
			l.aimChain, l.aimN, l.aimSvc = chain, 8, s1
			return nil, "", nil
		})
}

// scriptNodeLogoutWhileAuditAdminBinds: an nvp node is registered, an audit admin bound to it is proposed (node
// "binding"), then the node's logout is proposed: the admin's proposal is paused by that, votes on it are refused
// and the node's fate is decided by its own proposal alone.
func (l *l16) scriptNodeLogoutWhileAuditAdminBinds() {
	w := l.world
	node := harness.DetKey("lc-node-0").Addr.String()
	cand := harness.DetKey("candidate-admin-0").Addr.String()
	adm := harness.AdminKey(0)
	l.script = append(l.script, func() (pb.Transaction, string, []string) {
		return w.BVM(adm, harness.AddrNode, "RegisterNode", pb.String(node), pb.String("nvpNode"), pb.String(""), pb.Uint64(0), pb.String("nvp-"+node[2:8]), pb.String(harness.ChainA), pb.String("r")), "RegisterNode " + node[:8] + " (scripted)", []string{node}
	}, l.scriptApprove(1, node, ""), l.scriptApprove(2, node, ""), l.scriptApprove(3, node, ""),
		func() (pb.Transaction, string, []string) {
			return w.BVM(adm, harness.AddrRole, "RegisterRole", pb.String(cand), pb.String("auditAdmin"), pb.String(node), pb.String("r")), "RegisterRole " + cand[:8] + " as audit admin of " + node[:8] + " (scripted)", []string{cand, node}
		},
		func() (pb.Transaction, string, []string) {
			return w.BVM(adm, harness.AddrNode, "LogoutNode", pb.String(node), pb.String("r")), "LogoutNode " + node[:8] + " (scripted, audit admin still being registered)", []string{node, cand}
		},
		// votes on the admin's proposal: they concern the admin, not the node
		l.scriptApprove(0, cand, ""), l.scriptApprove(1, cand, ""), l.scriptApprove(2, cand, ""), l.scriptApprove(3, cand, ""))
}

// scriptRejectedRuleUpdate: a master-rule update is voted down: the old master rule is the chain's available
// master again (the chain itself stays paused until it is activated).
func (l *l16) scriptRejectedRuleUpdate(chain string) {
	w := l.world
	reject := func(i int) func() (pb.Transaction, string, []string) {
		return func() (pb.Transaction, string, []string) {
			if len(l.open) == 0 {
				return nil, "", nil
			}
			pid := l.open[len(l.open)-1]
			return w.BVM(harness.AdminKey(i), harness.AddrGov, "Vote", pb.String(pid), pb.String("reject"), pb.String("r")), fmt.Sprintf("vote reject on %s (scripted)", pid), []string{l.objOf[pid], chain}
		}
	}
	l.script = append(l.script, func() (pb.Transaction, string, []string) {
		if l.rule2[chain] == "" {
			return nil, "", nil
		}
		return w.BVM(harness.ChainAdmin(chain), harness.AddrRule, "UpdateMasterRule", pb.String(chain), pb.String(l.rule2[chain]), pb.String("r")), "UpdateMasterRule " + chain + " (scripted, to be voted down)", []string{chain, l.rule2[chain]}
	}, reject(0), reject(1), reject(2), reject(3))
}

// scriptLogoutWhileFreezePending: a freeze of the appchain is proposed and left undecided, then the chain's
// admin asks for its logout and that is approved: the chain is gone and so are its services.
func (l *l16) scriptLogoutWhileFreezePending(chain string) {
	w := l.world
	l.script = append(l.script, func() (pb.Transaction, string, []string) {
		return w.BVM(harness.AdminKey(0), harness.AddrAppchain, "FreezeAppchain", pb.String(chain), pb.String("r")), "FreezeAppchain " + chain + " (scripted, left undecided)", []string{chain}
	}, func() (pb.Transaction, string, []string) {
		return w.BVM(harness.ChainAdmin(chain), harness.AddrAppchain, "LogoutAppchain", pb.String(chain), pb.String("r")), "LogoutAppchain " + chain + " (scripted, freeze pending)", []string{chain}
	}, l.scriptApprove(0, chain, chain), l.scriptApprove(1, chain, chain), l.scriptApprove(2, chain, chain),
		func() (pb.Transaction, string, []string) {
			l.aimChain, l.aimN, l.aimSvc = chain, 8, ""
			return nil, "", nil
		})
}

// scriptPoorAdminUpdatesBlackList: the admin of chainB gives its money away and then empties the black list of
// chainB:s3 (which blocks chainA:s1 since the fixture) by a black-list-only update: the contract runs, posts its
// service event, and the transaction fails at the fee - the stored record still blocks chainA:s1, and so must the
// running node (probes are aimed at that pair). Later the admin is funded again.
func (l *l16) scriptPoorAdminUpdatesBlackList() {
	w := l.world
	ca := harness.ChainAdmin(harness.ChainB)
	svc := harness.ChainB + ":s3"
	nothing := func() (pb.Transaction, string, []string) { return nil, "", nil }
	l.script = append(l.script, func() (pb.Transaction, string, []string) {
		bal := new(big.Int).Set(w.R.ViewL.GetBalance(ca.Addr))
		w.R.ViewL.Clear()
		if bal.Cmp(big.NewInt(20000000000)) <= 0 {
			return nil, "", nil
		}
		return w.Transfer(ca, harness.User(3).Addr, new(big.Int).Sub(bal, big.NewInt(10000000000)).String()), "chainB's admin gives its money away (scripted)", nil
	}, func() (pb.Transaction, string, []string) {
		t, ok := w.PermitOnlyUpdate(ca, svc, "")
		if !ok {
			return nil, "", nil
		}
		if l.blSrcs == nil {
			l.blSrcs = map[string][]string{}
		}
		l.blSrcs[svc] = append(l.blSrcs[svc], harness.ChainA+":s1")
		l.blDst, l.blAim = svc, 4
		l.w.Count("permit_only_updates_by_an_admin_who_cannot_pay", 1)
		return t, "UpdateService(black list only) " + svc + " <- [] by an admin who cannot pay the fee (scripted)", []string{svc}
	}, nothing, nothing, nothing, func() (pb.Transaction, string, []string) {
		return w.Transfer(harness.User(3), ca.Addr, "500000000000000"), "chainB's admin is funded again (scripted)", nil
	})
}

const happyRule = "0x00000000000000000000000000000000000000a2"

func (l *l16) query(o lcObj) string {
	var rc *pb.Receipt
	switch o.class {
	case "appchain":
		rc = l.world.R.Query(harness.AddrAppchain, "GetAppchain", pb.String(o.id))
	case "service":
		rc = l.world.R.Query(harness.AddrService, "GetServiceInfo", pb.String(o.id))
	case "role":
		rc = l.world.R.Query(harness.AddrRole, "GetRoleInfoById", pb.String(o.id))
	case "node":
		rc = l.world.R.Query(harness.AddrNode, "GetNode", pb.String(o.id))
	case "rule":
		rc = l.world.R.Query(harness.AddrRule, "GetRuleByAddr", pb.String(o.chain), pb.String(o.id))
	}
	if rc == nil || rc.Status != pb.Receipt_SUCCESS {
		return model.LcNone
	}
	var s struct {
		Status string `json:"status"`
	}
	json.Unmarshal(rc.Ret, &s)
	if s.Status == "" {
		return model.LcNone
	}
	return s.Status
}

func (l *l16) key(o lcObj) string { return o.class + "/" + o.chain + "/" + o.id }

// govOp sends one governance operation; returns the ids of the objects it concerns.
func (l *l16) govOp() []string {
	r, w := l.rng, l.world
	chain := []string{harness.ChainA, harness.ChainB, harness.ChainC}[r.Intn(3)]
	ca := harness.ChainAdmin(chain)
	adm := harness.AdminKey(r.Intn(4))
	svc := chain + ":" + []string{"s1", "s2"}[r.Intn(2)]
	cand := harness.DetKey(fmt.Sprintf("candidate-admin-%d", r.Intn(2))).Addr.String()
	node := harness.DetKey(fmt.Sprintf("lc-node-%d", r.Intn(2))).Addr.String()
	var tx pb.Transaction
	var desc string
	var concerns []string
	x := r.Intn(100)
	if len(l.script) > 0 {
		// scripted opening of this case (deep sequences that random choice hardly reaches)
		step := l.script[0]
		l.script = l.script[1:]
		if t, d, c := step(); t != nil {
			tx, desc, concerns = t, d, c
			x = -1
		}
	}
	switch {
	case x < 0:
	case x < 38 && len(l.open) > 0: // vote (mostly approve so that things conclude)
		pid := l.open[r.Intn(len(l.open))]
		if r.Intn(2) == 0 {
			pid = l.open[0] // the oldest one: deep sequences (freeze, then rule change, then ...) need conclusions
		}
		ballot := "approve"
		if r.Intn(5) == 0 {
			ballot = "reject"
		}
		// prefer an admin who has not voted on it yet
		if l.votedBy == nil {
			l.votedBy = map[string]map[int]bool{}
		}
		if l.votedBy[pid] == nil {
			l.votedBy[pid] = map[int]bool{}
		}
		ai := r.Intn(4)
		for k := 0; k < 4 && l.votedBy[pid][ai] && r.Intn(6) != 0; k++ {
			ai = (ai + 1) % 4
		}
		l.votedBy[pid][ai] = true
		adm = harness.AdminKey(ai)
		tx, desc = w.BVM(adm, harness.AddrGov, "Vote", pb.String(pid), pb.String(ballot), pb.String("r")), fmt.Sprintf("vote %s on %s", ballot, pid)
		concerns = []string{l.objOf[pid]}
	case x < 41:
		// black list only (name and details kept): takes effect at once, no proposal
		bl := []string{"", harness.FullID(harness.ChainA, "s1"), harness.FullID(harness.ChainA, "s2") + "," + harness.FullID(harness.ChainC, "s1")}[r.Intn(3)]
		if t, ok := w.PermitOnlyUpdate(ca, svc, bl); ok {
			tx, desc, concerns = t, "UpdateService(black list only) "+svc+" <- ["+bl+"]", []string{svc}
			l.w.Count("permit_only_updates", 1)
			if l.blSrcs == nil {
				l.blSrcs = map[string][]string{}
			}
			for _, s := range strings.Split(bl, ",") {
				if s != "" {
					l.blSrcs[svc] = append(l.blSrcs[svc], strings.TrimPrefix(s, harness.BxhID+":"))
				}
			}
			l.blDst, l.blAim = svc, 3
		} else {
			tx, desc, concerns = w.BVM(ca, harness.AddrService, "ActivateService", pb.String(svc), pb.String("r")), "ActivateService "+svc, []string{svc}
		}
	case x < 44:
		tx, desc, concerns = w.BVM(ca, harness.AddrService, "UpdateService", pb.String(svc), pb.String(fmt.Sprintf("nm%d", r.Intn(1e6))), pb.String("i"), pb.String([]string{"", harness.FullID(harness.ChainA, "s1")}[r.Intn(2)]), pb.String("d"), pb.String("r")), "UpdateService "+svc, []string{svc}
	case x < 51:
		tx, desc, concerns = w.BVM(adm, harness.AddrService, "FreezeService", pb.String(svc), pb.String("r")), "FreezeService "+svc, []string{svc}
	case x < 58:
		tx, desc, concerns = w.BVM(ca, harness.AddrService, "ActivateService", pb.String(svc), pb.String("r")), "ActivateService "+svc, []string{svc}
	case x < 62:
		tx, desc, concerns = w.BVM(ca, harness.AddrService, "LogoutService", pb.String(svc), pb.String("r")), "LogoutService "+svc, []string{svc}
	case x < 66:
		s3 := chain + ":s3"
		tx, desc, concerns = w.BVM(ca, harness.AddrService, "RegisterService", pb.String(chain), pb.String("s3"), pb.String("name-"+s3), pb.String("CallContract"), pb.String("i"), pb.Uint64(1), pb.String(""), pb.String("d"), pb.String("r")), "RegisterService "+s3, []string{s3}
	case x < 73:
		tx, desc, concerns = w.BVM(adm, harness.AddrAppchain, "FreezeAppchain", pb.String(chain), pb.String("r")), "FreezeAppchain "+chain, []string{chain}
	case x < 80:
		tx, desc, concerns = w.BVM(ca, harness.AddrAppchain, "ActivateAppchain", pb.String(chain), pb.String("r")), "ActivateAppchain "+chain, []string{chain}
	case x < 83:
		tx, desc, concerns = w.BVM(ca, harness.AddrAppchain, "LogoutAppchain", pb.String(chain), pb.String("r")), "LogoutAppchain "+chain, []string{chain}
	case x < 85 && l.rule2[chain] != "":
		// change of the master rule (allowed on available and on frozen appchains): whatever the vote says,
		// the appchain and its services come back in the status they had
		target := []string{l.rule2[chain], happyRule}[r.Intn(2)]
		tx, desc, concerns = w.BVM(ca, harness.AddrRule, "UpdateMasterRule", pb.String(chain), pb.String(target), pb.String("r")), "UpdateMasterRule "+chain+" <- "+target[:8], []string{chain, target}
	case x < 86:
		tx, desc, concerns = w.BVM(ca, harness.AddrAppchain, "UpdateAppchain", pb.String(chain), pb.String(fmt.Sprintf("nm-%s-%d", chain, r.Intn(1e6))), pb.String("d"), pb.Bytes(nil), pb.String(ca.Addr.String()), pb.String("r")), "UpdateAppchain "+chain, []string{chain}
	case x < 90:
		tx, desc, concerns = w.BVM(adm, harness.AddrRole, "RegisterRole", pb.String(cand), pb.String("governanceAdmin"), pb.String(""), pb.String("r")), "RegisterRole "+cand[:8], []string{cand}
	case x < 94:
		m := []string{"FreezeRole", "ActivateRole", "LogoutRole"}[r.Intn(3)]
		tx, desc, concerns = w.BVM(adm, harness.AddrRole, m, pb.String(cand), pb.String("r")), m+" "+cand[:8], []string{cand}
	case x < 97:
		tx, desc, concerns = w.BVM(adm, harness.AddrNode, "RegisterNode", pb.String(node), pb.String("nvpNode"), pb.String(""), pb.Uint64(0), pb.String("nvp-"+node[2:8]), pb.String([]string{"", harness.ChainA, harness.ChainB}[r.Intn(3)]), pb.String("r")), "RegisterNode "+node[:8], []string{node}
	default:
		tx, desc, concerns = w.BVM(adm, harness.AddrNode, "LogoutNode", pb.String(node), pb.String("r")), "LogoutNode "+node[:8], []string{node}
	}
	res, err := w.Exec(tx)
	if err != nil {
		l.viol("exec:error", err.Error())
		return nil
	}
	rc := res.Receipts[0]
	l.hist = append(l.hist, fmt.Sprintf("h%d %s: %v %.60s", res.Height, desc, rc.Status, string(rc.Ret)))
	l.w.Count("gov_ops", 1)
	if rc.Status == pb.Receipt_SUCCESS {
		l.w.Count("gov_ops_accepted", 1)
		if pid := harness.ProposalID(rc); pid != "" && strings.Contains(string(rc.Ret), "proposal_id") {
			l.open = append(l.open, pid)
			l.allPids = append(l.allPids, pid)
			if len(concerns) > 0 {
				l.objOf[pid] = concerns[0]
			}
			if len(l.open) > 10 {
				l.open = l.open[len(l.open)-10:]
			}
		}
	}
	return concerns
}

// observe checks every tracked object's status change of the last block against the declared machine.
func (l *l16) observe(concerns []string, h uint64) {
	conc := map[string]bool{}
	for _, c := range concerns {
		conc[c] = true
	}
	for _, o := range l.objs {
		st := l.query(o)
		k := l.key(o)
		old, seen := l.status[k]
		l.status[k] = st
		l.w.Count("obs_status_reads", 1)
		if !seen || old == st {
			continue
		}
		l.w.SetAdd("edges_"+o.class, old+"->"+st)
		if o.class == "appchain" && (st == "frozen" || st == "forbidden" || old == "frozen") {
			// the chain just became unusable, or something was concluded on / about an unusable chain: the next
			// probes go to and from its services
			l.aimChain, l.aimN = o.id, 4
		}
		if model.LcAbsorbing(o.class, old) {
			l.viol("lifecycle:left-forbidden:"+o.class, fmt.Sprintf("block %d: %s %s was logged out (forbidden) and became %s", h, o.class, o.id, st))
			continue
		}
		if !model.LcPath(o.class, old, st, 2) {
			l.viol(fmt.Sprintf("lifecycle:undeclared-edge:%s:%s->%s", o.class, old, st), fmt.Sprintf("block %d: %s %s moved %s -> %s, which is not a path of at most two declared transitions", h, o.class, o.id, old, st))
		}
		// an audit admin is bound to an nvp node: what is decided about the one moves the other (binding, binded,
		// a registration that loses its node) - except that a node whose own logout is pending ("logouting") is
		// only moved by the conclusion of that proposal, the admin's proposal is paused meanwhile
		boundPartner := false
		if o.class == "role" || o.class == "node" {
			for _, p := range l.objs {
				if (p.class == "role" || p.class == "node") && p.class != o.class && conc[p.id] {
					boundPartner = true
				}
			}
			if o.class == "node" && old == "logouting" && !conc[o.id] {
				l.viol("lifecycle:logouting-node-moved-by-another-proposal", fmt.Sprintf("block %d: node %s, whose logout proposal is open, moved logouting -> %s in a block whose transaction concerned %v", h, o.id, st, concerns))
				boundPartner = true // reported under its own signature
			}
		}
		// cause: an operation / vote concerning the object or its owning chain in this block
		if !boundPartner && !conc[o.id] && !conc[o.chain] && !(o.class == "service" && conc[strings.Split(o.id, ":")[0]]) {
			l.viol("lifecycle:change-without-cause:"+o.class, fmt.Sprintf("block %d: %s %s moved %s -> %s but the block's transaction concerned %v", h, o.class, o.id, old, st, concerns))
		}
	}
}

// checkMasterRules: an appchain that is not logged out has a master rule, and while no rule proposal of the
// chain is undecided that rule is available - a rejected update puts the old master back, an approved one
// makes the new master available.
func (l *l16) checkMasterRules(h uint64) {
	for _, chain := range []string{harness.ChainA, harness.ChainB, harness.ChainC} {
		if st := l.query(lcObj{class: "appchain", id: chain}); st == "forbidden" || st == model.LcNone || st == "registering" {
			continue
		}
		rc := l.world.R.Query(harness.AddrRule, "GetMasterRule", pb.String(chain))
		l.w.Count("obs_master_rule_reads", 1)
		var r struct {
			Address string `json:"address"`
			Status  string `json:"status"`
		}
		if rc.Status != pb.Receipt_SUCCESS || json.Unmarshal(rc.Ret, &r) != nil || r.Status == "available" {
			continue
		}
		pending := false
		for _, pid := range l.allPids {
			prc := l.world.R.Query(harness.AddrGov, "GetProposal", pb.String(pid))
			var p struct {
				Typ    string `json:"Typ"`
				Status string `json:"status"`
				ObjId  string `json:"obj_id"`
			}
			if prc.Status == pb.Receipt_SUCCESS && json.Unmarshal(prc.Ret, &p) == nil && p.Typ == "rule_mgr" && strings.HasPrefix(p.ObjId, chain) && (p.Status == "proposed" || p.Status == "paused") {
				pending = true
			}
		}
		if !pending {
			l.viol("lifecycle:master-rule-not-available:"+r.Status, fmt.Sprintf("block %d: appchain %s is not logged out and has no undecided rule proposal, but its master rule %s has status %s", h, chain, r.Address, r.Status))
		}
	}
}

// probe sends one interchain request (alone in its block) and checks the gating.
func (l *l16) probe() {
	r, w := l.rng, l.world
	svcs := []string{"chainA:s1", "chainA:s2", "chainB:s1", "chainB:s2", "chainC:s1", "chainC:s2", "chainB:s3", "chainA:s3", "chainC:ghost"}
	src := svcs[r.Intn(7)]
	dst := svcs[r.Intn(len(svcs))]
	if l.blAim > 0 && len(l.blSrcs[l.blDst]) > 0 && r.Intn(3) != 0 {
		// aim at a pair whose gating just changed (now blocked, or blocked before and no longer)
		l.blAim--
		dst = l.blDst
		src = l.blSrcs[dst][r.Intn(len(l.blSrcs[dst]))]
		l.w.Count("probes_aimed_at_changed_black_list", 1)
	}
	if l.aimN > 0 && r.Intn(4) != 0 {
		l.aimN--
		mine := l.aimChain + ":" + []string{"s1", "s2"}[r.Intn(2)]
		if l.aimSvc != "" && strings.HasPrefix(l.aimSvc, l.aimChain+":") && r.Intn(3) != 0 {
			mine = l.aimSvc
		}
		for other := svcs[r.Intn(6)]; ; other = svcs[r.Intn(6)] {
			if strings.Split(other, ":")[0] != l.aimChain {
				if r.Intn(3) == 0 {
					src, dst = mine, other
				} else {
					src, dst = other, mine
				}
				break
			}
		}
		l.w.Count("probes_aimed_at_chain_with_status_change", 1)
	}
	if strings.Split(src, ":")[0] == strings.Split(dst, ":")[0] {
		return
	}
	// one probe in seven arrives from the other (registered) BitXHub, with a proof its validators signed: the
	// source cannot be gated here, the local destination is gated like for any other request
	remote := l.hub && r.Intn(7) == 0
	stOf := func(s string) string { return l.query(lcObj{class: "service", id: s}) }
	srcSt, dstSt := stOf(src), stOf(dst)
	if remote {
		src, srcSt = "cX:sY", "available"
	}
	// blacklist of the destination
	blocked := false
	if dstSt != model.LcNone {
		rc := w.R.Query(harness.AddrService, "GetServiceInfo", pb.String(dst))
		var s struct {
			Permission map[string]struct{} `json:"permission"`
		}
		json.Unmarshal(rc.Ret, &s)
		_, blocked = s.Permission[harness.BxhID+":"+src]
	}
	from, to := harness.BxhID+":"+src, harness.BxhID+":"+dst
	if remote {
		from = hubID + ":" + src
	}
	idx := l.req[from+"|"+to] + 1
	var tx pb.Transaction = w.IBTPTx(harness.User(0), harness.MkIBTP(from, to, idx, pb.IBTP_INTERCHAIN, 0), []byte{1, 0x70})
	if remote {
		tx = interHubRequestTx(w, harness.User(0), from, to, idx)
		l.w.Count("probes_from_the_other_bitxhub", 1)
	}
	res, err := w.Exec(tx)
	if err != nil {
		l.viol("exec:error", err.Error())
		return
	}
	rc := res.Receipts[0]
	ok := rc.Status == pb.Receipt_SUCCESS
	id := fmt.Sprintf("%s-%s-%d", from, to, idx)
	if ok {
		l.req[from+"|"+to] = idx
	}
	l.w.Count("probes", 1)
	sg, dg := model.Gate(srcSt), model.Gate(dstSt)
	if blocked {
		dg = "block"
	}
	// "an approved freeze or logout of an appchain makes all its services unusable": the destination's
	// appchain counts too, whatever the service record itself says
	if dstSt != model.LcNone {
		switch cst := l.query(lcObj{class: "appchain", id: strings.Split(dst, ":")[0]}); cst {
		case "frozen", "forbidden":
			if dg == "pass" {
				l.w.Count("probes_service_available_on_unusable_chain", 1)
			}
			dg = "block"
		case "available":
		default:
			if dg == "pass" {
				dg = "ambiguous"
			}
		}
	}
	if srcSt != model.LcNone && !remote {
		switch cst := l.query(lcObj{class: "appchain", id: strings.Split(src, ":")[0]}); cst {
		case "frozen", "forbidden":
			sg = "block"
		case "available":
		default:
			if sg == "pass" {
				sg = "ambiguous"
			}
		}
	}
	l.hist = append(l.hist, fmt.Sprintf("h%d probe %s(%s) -> %s(%s,blocked=%v): %v %.40s", res.Height, src, srcSt, dst, dstSt, blocked, rc.Status, string(rc.Ret)))
	l.shape["probe:"+sg+">"+dg] = true
	l.w.SetAdd("probe_classes", srcSt+">"+dstSt)
	delivered := false
	if sl := res.Meta.Counter[strings.Split(dst, ":")[0]]; sl != nil {
		for _, vi := range sl.Slice {
			if vi.Index == 0 && vi.Valid {
				delivered = true
			}
		}
	}
	switch {
	case sg == "ambiguous" || (sg == "pass" && dg == "ambiguous"):
		l.w.Count("probes_ambiguous_by_statement", 1)
	case sg == "block":
		l.w.Count("probes_source_blocked", 1)
		if ok {
			l.viol("gate:unavailable-source-accepted:"+srcSt, fmt.Sprintf("block %d: request from service %s with status %s was accepted", res.Height, src, srcSt))
		}
	case dg == "block":
		l.w.Count("probes_destination_blocked", 1)
		st := w.Status(id)
		if !ok {
			l.viol("gate:request-to-unusable-destination-rejected", fmt.Sprintf("block %d: request %s -> %s (destination status %s, blacklisted=%v) was rejected instead of being recorded as begin-failed: %s", res.Height, src, dst, dstSt, blocked, string(rc.Ret)))
		} else if st != model.StBeginFailure {
			l.viol("gate:unusable-destination-not-begin-failed", fmt.Sprintf("block %d: request %s -> %s (destination status %s, blacklisted=%v) has status %s instead of BEGIN_FAILURE", res.Height, src, dst, dstSt, blocked, model.StName[st]))
		}
		if delivered {
			// the statement does not forbid listing a begin-failed request for its destination chain
			// (C02 even requires every accepted request to be listed): observation only
			l.w.Count("obs_begin_failed_listed_for_destination", 1)
		}
	default:
		l.w.Count("probes_open", 1)
		if !ok {
			l.viol("gate:available-pair-rejected", fmt.Sprintf("block %d: request %s(%s) -> %s(%s) was rejected: %s", res.Height, src, srcSt, dst, dstSt, string(rc.Ret)))
		} else {
			if st := w.Status(id); st != model.StBegin {
				l.viol("gate:available-pair-not-begun", fmt.Sprintf("block %d: request %s -> %s has status %s", res.Height, src, dst, model.StName[st]))
			}
			if !delivered {
				l.viol("gate:available-pair-not-delivered", fmt.Sprintf("block %d: request %s -> %s is not in the destination chain's delivery set", res.Height, src, dst))
			}
		}
	}
}

func lc16Workload(args []string) int {
	a := parseArgs("lc16", args, nil)
	w := vlog.Open(a.Out)
	for id := a.From; id < a.To; id++ {
		rng := vlog.CaseRand(a.Seed, "lc16", id)
		opts := harness.Options{NoAudit: rng.Intn(2) == 0}
		w.CaseStart(id, map[string]interface{}{"opts": opts})
		guard(w, "lc16", func() { lc16Case(w, a, id, rng, opts) })
	}
	w.End()
	return 0
}

func lc16Case(w *vlog.W, a *wargs, id int, rng *rand.Rand, opts harness.Options) {
	world, dir, err := newCaseWorldStd(a.Work, id, opts, "lc")
	defer os.RemoveAll(dir)
	if err != nil {
		w.Inconclusive(err.Error())
		w.CaseDone("fixture-error", false)
		return
	}
	defer func() { world.R.Close() }()
	l := &l16{w: w, world: world, rng: rng, status: map[string]string{}, objOf: map[string]string{}, req: map[string]uint64{}, shape: map[string]bool{}, opts: opts, dir: dir}
	seen := map[string]bool{}
	l.viol = func(sig, detail string) {
		if seen[sig] {
			return
		}
		seen[sig] = true
		h := l.hist
		if len(h) > 40 {
			h = h[len(h)-40:]
		}
		w.Violation(sig, detail, map[string]interface{}{"opts": opts, "history": h})
	}
	// a service that blacklists chainA:s1
	if err := world.RegisterService(harness.ChainAdmin(harness.ChainB), harness.ChainB, "s3", true, harness.FullID(harness.ChainA, "s1")); err != nil {
		w.Inconclusive("fixture s3: " + err.Error())
		return
	}
	// a second validation rule per chain, so that the master rule can be changed
	l.rule2 = map[string]string{}
	for _, c := range []string{harness.ChainA, harness.ChainB, harness.ChainC} {
		addr, err := world.DeployRule(harness.ChainAdmin(c), "firstbyte")
		if err == nil {
			rc, err2 := world.Call(harness.ChainAdmin(c), harness.AddrRule, "RegisterRule", pb.String(c), pb.String(addr), pb.String("url"))
			if err2 == nil && rc.Status == pb.Receipt_SUCCESS {
				l.rule2[c] = addr
				l.objs = append(l.objs, lcObj{"rule", addr, c})
			}
		}
	}
	for _, c := range []string{harness.ChainA, harness.ChainB, harness.ChainC} {
		l.objs = append(l.objs, lcObj{"appchain", c, ""}, lcObj{"rule", happyRule, c})
		for _, s := range []string{"s1", "s2", "s3"} {
			l.objs = append(l.objs, lcObj{"service", c + ":" + s, c})
		}
	}
	for i := 0; i < 2; i++ {
		l.objs = append(l.objs, lcObj{"role", harness.DetKey(fmt.Sprintf("candidate-admin-%d", i)).Addr.String(), ""},
			lcObj{"node", harness.DetKey(fmt.Sprintf("lc-node-%d", i)).Addr.String(), ""})
	}
	if err := registerHub(world); err == nil {
		l.hub = true
	}
	l.observe(nil, world.R.Height())
	if rng.Intn(5) == 0 {
		l.scriptNodeLogoutWhileAuditAdminBinds()
		l.shape["scripted:node-logout-while-audit-admin-binds"] = true
	}
	if rng.Intn(4) == 0 {
		l.scriptPoorAdminUpdatesBlackList()
		l.shape["scripted:black-list-update-by-an-admin-who-cannot-pay"] = true
	}
	switch sc, chain := rng.Intn(7), []string{harness.ChainA, harness.ChainB, harness.ChainC}[rng.Intn(3)]; sc {
	case 6:
		l.scriptServiceFrozenBeforeItsChain(chain)
		l.shape["scripted:service-frozen-before-its-chain"] = true
	case 0, 1:
		l.scriptFrozenChainRuleChange(chain)
		l.shape["scripted:rule-change-on-frozen-chain"] = true
	case 2:
		l.scriptServiceRegisteredOnFrozenChain(chain)
		l.shape["scripted:service-registered-on-frozen-chain"] = true
	case 3:
		l.scriptCascadeOverLoggedOutService(chain)
		l.shape["scripted:cascade-over-logged-out-service"] = true
	case 4:
		l.scriptLogoutWhileFreezePending(chain)
		l.shape["scripted:logout-while-freeze-pending"] = true
	case 5:
		l.scriptRejectedRuleUpdate(chain)
		l.shape["scripted:rule-update-voted-down"] = true
	}
	for s := 0; s < 70; s++ {
		if rng.Intn(12) == 0 { // restart: cached and stored service records must give the same gate
			world.R.Close()
			r2, err := harness.Open(dir, opts)
			if err != nil {
				l.viol("reopen:error", err.Error())
				return
			}
			world.R = r2
			l.shape["restart"] = true
			l.hist = append(l.hist, "restart")
		}
		if rng.Intn(5) < 3 {
			concerns := l.govOp()
			l.observe(concerns, world.R.Height())
			l.checkMasterRules(world.R.Height())
		} else {
			before := map[string]string{}
			for k, v := range l.status {
				before[k] = v
			}
			l.probe()
			// an interchain request never changes a governance status
			l.observe([]string{"<probe>"}, world.R.Height())
		}
	}
	var sh []string
	for k := range l.shape {
		sh = append(sh, k)
	}
	sort.Strings(sh)
	if id == a.From {
		h := l.hist
		if len(h) > 30 {
			h = h[:30]
		}
		w.Sample(map[string]interface{}{"case": id, "opts": opts, "history": h})
	}
	if debug {
		for _, h := range l.hist {
			fmt.Fprintln(os.Stderr, h)
		}
	}
	w.CaseDone(fmt.Sprintf("audit%v|%s", !opts.NoAudit, strings.Join(sh, ",")), true)
}
