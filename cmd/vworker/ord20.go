package main

import (
	"bufio"
	"encoding/base64"
	"encoding/json"
	"fmt"
	"io"
	"io/ioutil"
	"math/rand"
	"os"
	"os/exec"
	"path/filepath"
	"regexp"
	"sort"
	"strings"
	"sync"
	"syscall"
	"time"

	"github.com/coreos/etcd/raft/raftpb"
	"github.com/ethereum/go-ethereum/event"
	"github.com/libp2p/go-libp2p-core/peer"
	peermgr "github.com/meshplus/bitxhub-core/peer-mgr"
	"github.com/meshplus/bitxhub-model/pb"
	raftproto "github.com/meshplus/bitxhub/pkg/order/etcdraft/proto"
	"github.com/meshplus/bitxhub/pkg/order/syncer"
	"github.com/meshplus/bitxhub/verif/vlog"
)

func init() { workloads["ord20"] = ord20Workload }

// ------------------------------------------------------------------------------------------
// sync ranges (enumerated completely)

type fakeSyncPeers struct {
	mu       sync.Mutex
	failLeft map[uint64]int // peer -> number of requests it still fails
	reqs     [][2]uint64
}

func (f *fakeSyncPeers) Start() error                                  { return nil }
func (f *fakeSyncPeers) Stop() error                                   { return nil }
func (f *fakeSyncPeers) AsyncSend(peermgr.KeyType, *pb.Message) error  { return nil }
func (f *fakeSyncPeers) CountConnectedPeers() uint64                   { return 3 }
func (f *fakeSyncPeers) Peers() map[string]*peer.AddrInfo              { return nil }
func (f *fakeSyncPeers) AddNode(uint64, *pb.VpInfo)                    {}
func (f *fakeSyncPeers) DelNode(uint64)                                {}
func (f *fakeSyncPeers) Disconnect(map[uint64]*pb.VpInfo)              {}
func (f *fakeSyncPeers) OrderPeers() map[uint64]*pb.VpInfo             { return nil }
func (f *fakeSyncPeers) OtherPeers() map[uint64]*peer.AddrInfo         { return nil }
func (f *fakeSyncPeers) Broadcast(*pb.Message) error                   { return nil }
func (f *fakeSyncPeers) UpdateRouter(map[uint64]*pb.VpInfo, bool) bool { return false }
func (f *fakeSyncPeers) SubscribeOrderMessage(ch chan<- peermgr.OrderMessageEvent) event.Subscription {
	return event.NewSubscription(func(q <-chan struct{}) error { <-q; return nil })
}
func (f *fakeSyncPeers) Send(to peermgr.KeyType, m *pb.Message) (*pb.Message, error) {
	id, _ := to.(uint64)
	f.mu.Lock()
	defer f.mu.Unlock()
	if f.failLeft[id] > 0 {
		f.failLeft[id]--
		return nil, fmt.Errorf("peer %d fails", id)
	}
	req := &pb.GetBlocksRequest{}
	if err := req.Unmarshal(m.Data); err != nil {
		return nil, err
	}
	f.reqs = append(f.reqs, [2]uint64{req.Start, req.End})
	res := &pb.GetBlocksResponse{}
	for h := req.Start; h <= req.End; h++ {
		res.Blocks = append(res.Blocks, &pb.Block{BlockHeader: &pb.BlockHeader{Number: h}, Transactions: &pb.Transactions{}})
	}
	b, _ := res.Marshal()
	return &pb.Message{Type: pb.Message_GET_BLOCKS_ACK, Data: b}, nil
}

func syncRangeCase(w *vlog.W, viol func(sig, detail string)) {
	for _, fetch := range []uint64{1, 2, 3, 5, 7} {
		for begin := uint64(1); begin <= 40; begin++ {
			for end := begin; end <= 40; end++ {
				for _, failing := range []int{0, 1} {
					if failing == 1 && (begin+end+fetch)%7 != 0 {
						continue // the transient-failure variant on a subset
					}
					fp := &fakeSyncPeers{failLeft: map[uint64]int{}}
					if failing == 1 {
						fp.failLeft[1] = 1
					}
					s, err := syncer.New(fetch, fp, 2, []uint64{1, 2, 3}, quietLogger())
					if err != nil {
						viol("sync:new-error", err.Error())
						return
					}
					ch := make(chan *pb.Block, 1024)
					done := make(chan error, 1)
					go func() { done <- s.SyncCFTBlocks(begin, end, ch) }()
					var got []uint64
					terminated := false
					timeout := time.After(20 * time.Second)
				loop:
					for {
						select {
						case b := <-ch:
							if b == nil {
								terminated = true
								break loop
							}
							got = append(got, b.BlockHeader.Number)
						case <-timeout:
							break loop
						}
					}
					w.Count("sync_ranges", 1)
					if !terminated {
						viol("sync:no-terminator", fmt.Sprintf("SyncCFTBlocks(%d,%d) fetch=%d did not emit the nil terminator within the watchdog (got %v)", begin, end, fetch, got))
						continue
					}
					ok := uint64(len(got)) == end-begin+1
					for i := range got {
						if got[i] != begin+uint64(i) {
							ok = false
						}
					}
					if !ok {
						viol("sync:heights-not-exactly-once-ascending", fmt.Sprintf("SyncCFTBlocks(%d,%d) fetch=%d failing-peer=%d emitted %v (requests %v)", begin, end, fetch, failing, got, fp.reqs))
					}
					for _, r := range fp.reqs {
						if r[1]-r[0]+1 > fetch && fetch > 0 {
							w.Count("obs_sync_request_larger_than_fetch_size", 1)
						}
					}
				}
			}
		}
	}
}

// ------------------------------------------------------------------------------------------
// multi-process cluster scenarios

type ordChild struct {
	id    uint64
	cmd   *exec.Cmd
	in    io.WriteCloser
	inMu  sync.Mutex
	alive bool
	inc   int
	dir   string
	// one process per replica at any time: spawn waits for the previous incarnation to be gone
	spawnMu sync.Mutex
	done    chan struct{}
}

func (c *ordChild) waitGone(d time.Duration) bool {
	c.inMu.Lock()
	done := c.done
	c.inMu.Unlock()
	if done == nil {
		return true
	}
	select {
	case <-done:
		return true
	case <-time.After(d):
		return false
	}
}

func (c *ordChild) isAlive() bool {
	c.inMu.Lock()
	defer c.inMu.Unlock()
	return c.alive
}

func (c *ordChild) send(m *wireMsg) {
	b, _ := json.Marshal(m)
	c.inMu.Lock()
	defer c.inMu.Unlock()
	if c.alive && c.in != nil {
		c.in.Write(append(b, '\n'))
	}
}

type ordNet struct {
	mu         sync.Mutex
	children   map[uint64]*ordChild
	rng        *rand.Rand
	dropP      float64
	dupP       float64
	maxDelay   time.Duration
	isolated   map[uint64]bool
	delivered  map[uint64]uint64 // id -> highest delivered height (from "deliver" notices)
	pendReq    map[string]uint64 // "<to>/<fwdID>" -> origin
	stats      map[string]int64
	self       string
	sentLately map[uint64]int64
	lag        int
	timed      bool
	feedhub    bool // the replicas run the node's real feed hub between order layer and executor
	unordered  bool // ... and the stand-in executor announces executed blocks from one goroutine each
	propLoss   bool // half of the forwarded proposals (raft MsgProp) are lost
	hookSeed   int64
	slowProp   bool // a cut batch waits (hook raft.before_propose) before it is proposed: leadership may change in between
	typ        string
	n          int
	batch      int
	base       string
}

// raftKindOf names the raft message inside a peer message of the order layer ("" if it is none).
func raftKindOf(b64 string) string {
	raw, err := base64.StdEncoding.DecodeString(b64)
	if err != nil {
		return ""
	}
	pm := &pb.Message{}
	if pm.Unmarshal(raw) != nil || pm.Type != pb.Message_CONSENSUS {
		return ""
	}
	rm := &raftproto.RaftMessage{}
	if rm.Unmarshal(pm.Data) != nil || rm.Type != raftproto.RaftMessage_CONSENSUS {
		return ""
	}
	msg := &raftpb.Message{}
	if msg.Unmarshal(rm.Data) != nil {
		return ""
	}
	return msg.Type.String()
}

func (nw *ordNet) count(k string) { nw.mu.Lock(); nw.stats[k]++; nw.mu.Unlock() }

// busiest returns the replica that sent most messages lately - with raft that is the leader
// (append / heartbeat fan-out); only used to aim faults, never for a verdict.
func (nw *ordNet) busiest() uint64 {
	nw.mu.Lock()
	defer nw.mu.Unlock()
	var best uint64
	var bestN int64 = -1
	for id, n := range nw.sentLately {
		if n > bestN {
			best, bestN = id, n
		}
	}
	for id := range nw.sentLately {
		nw.sentLately[id] = 0
	}
	return best
}

func (nw *ordNet) route(from uint64, m *wireMsg) {
	nw.mu.Lock()
	if nw.sentLately == nil {
		nw.sentLately = map[uint64]int64{}
	}
	nw.sentLately[from]++
	iso := nw.isolated[from] || nw.isolated[m.To]
	drop := nw.rng.Float64() < nw.dropP
	dup := nw.rng.Float64() < nw.dupP
	// what kind of raft message is it (counted; scenarios with propLoss lose half of the forwarded proposals -
	// what a deposed leader that still cuts batches sends to its successor)
	if kind := raftKindOf(m.Data); kind != "" {
		nw.stats["raft_msg:"+kind]++
		if kind == "MsgProp" && nw.propLoss && nw.rng.Intn(2) == 0 {
			drop = true
			nw.stats["forwarded_proposals_lost"]++
		}
	}
	delay := time.Duration(0)
	if nw.maxDelay > 0 {
		delay = time.Duration(nw.rng.Int63n(int64(nw.maxDelay)))
	}
	dupDelay := time.Duration(nw.rng.Int63n(int64(5*time.Millisecond) + 1))
	to := nw.children[m.To]
	nw.mu.Unlock()
	if to == nil {
		return
	}
	if iso {
		nw.count("msgs_cut_by_partition")
		return
	}
	if drop {
		nw.count("msgs_dropped")
		return
	}
	deliver := func() {
		to.send(&wireMsg{T: "msg", From: from, Data: m.Data})
	}
	nw.count("msgs_routed")
	time.AfterFunc(delay, deliver)
	if dup {
		nw.count("msgs_duplicated")
		time.AfterFunc(delay+dupDelay, deliver)
	}
}

func (nw *ordNet) spawn(id uint64, extraEnv []string, extraArgs ...string) error {
	nw.mu.Lock()
	c := nw.children[id]
	if c == nil {
		c = &ordChild{id: id, dir: filepath.Join(nw.base, fmt.Sprintf("node%d", id))}
		nw.children[id] = c
	}
	nw.mu.Unlock()
	c.spawnMu.Lock()
	defer c.spawnMu.Unlock()
	if c.isAlive() {
		return nil // already running
	}
	if !c.waitGone(10 * time.Second) {
		return fmt.Errorf("previous incarnation of replica %d does not exit", id)
	}
	nw.mu.Lock()
	c.inc++
	inc := c.inc
	nw.mu.Unlock()
	args := []string{"ord-node", "-id", fmt.Sprint(id), "-n", fmt.Sprint(nw.n), "-dir", c.dir, "-type", nw.typ, "-batch", fmt.Sprint(nw.batch), "-inc", fmt.Sprint(inc)}
	if nw.timed {
		args = append(args, "-timed")
	}
	if nw.lag > 0 {
		args = append(args, "-lag", fmt.Sprint(nw.lag))
	}
	if nw.feedhub {
		args = append(args, "-feedhub")
		if nw.unordered {
			args = append(args, "-announce-unordered")
		}
	}
	args = append(args, extraArgs...)
	cmd := exec.Command(nw.self, args...)
	if nw.slowProp {
		// every incarnation of every replica: a batch that has been cut waits up to 300 ms (three times out of
		// ten) before it is handed to raft - the place where the node's propose goroutine is parked anyway
		slow := "raft.before_propose=sleep:300000:0.3"
		merged := false
		for i, e := range extraEnv {
			if strings.HasPrefix(e, "VERIF_HOOKS=") {
				extraEnv = append(append([]string{}, extraEnv[:i]...), append([]string{e + "," + slow}, extraEnv[i+1:]...)...)
				merged = true
				break
			}
		}
		if !merged {
			extraEnv = append(append([]string{}, extraEnv...), "VERIF_HOOKS="+slow, fmt.Sprintf("VERIF_HOOK_SEED=%d", nw.hookSeed+int64(id)*1000+int64(inc)))
		}
	}
	cmd.Env = append(os.Environ(), extraEnv...)
	stdin, err := cmd.StdinPipe()
	if err != nil {
		return err
	}
	stdout, err := cmd.StdoutPipe()
	if err != nil {
		return err
	}
	lf, _ := os.OpenFile(filepath.Join(nw.base, fmt.Sprintf("node%d.stderr", id)), os.O_CREATE|os.O_WRONLY|os.O_APPEND, 0644)
	cmd.Stderr = lf
	if err := cmd.Start(); err != nil {
		return err
	}
	done := make(chan struct{})
	c.inMu.Lock()
	c.cmd, c.in, c.alive, c.done = cmd, stdin, true, done
	c.inMu.Unlock()
	go func() {
		defer close(done)
		sc := bufio.NewScanner(stdout)
		sc.Buffer(make([]byte, 1<<20), 64<<20)
		for sc.Scan() {
			var m wireMsg
			if json.Unmarshal(sc.Bytes(), &m) != nil {
				continue
			}
			switch m.T {
			case "send":
				nw.route(id, &m)
			case "bcast":
				for oid := range nw.children {
					if oid != id {
						mm := m
						mm.To = oid
						nw.route(id, &mm)
					}
				}
			case "req":
				nw.mu.Lock()
				to := nw.children[m.To]
				iso := nw.isolated[id] || nw.isolated[m.To]
				nw.mu.Unlock()
				if to == nil || iso || !to.isAlive() {
					c.send(&wireMsg{T: "resp", ID: m.ID})
					continue
				}
				nw.count("sync_requests_routed")
				to.send(&wireMsg{T: "req", From: id, ID: m.ID, Data: m.Data})
			case "resp":
				nw.mu.Lock()
				to := nw.children[m.To]
				nw.mu.Unlock()
				if to != nil {
					to.send(&wireMsg{T: "resp", ID: m.ID, Data: m.Data})
				}
			case "deliver":
				nw.mu.Lock()
				if m.H > nw.delivered[id] {
					nw.delivered[id] = m.H
				}
				nw.mu.Unlock()
			}
		}
		cmd.Wait()
		lf.Close()
		c.inMu.Lock()
		if c.cmd == cmd {
			c.alive = false
		}
		c.inMu.Unlock()
	}()
	return nil
}

func (nw *ordNet) kill(id uint64) {
	nw.mu.Lock()
	c := nw.children[id]
	nw.mu.Unlock()
	if c == nil {
		return
	}
	c.inMu.Lock()
	cmd := c.cmd
	c.alive = false
	c.inMu.Unlock()
	if cmd != nil && cmd.Process != nil {
		cmd.Process.Signal(syscall.SIGKILL)
		c.waitGone(10 * time.Second)
	}
}

var ignoreRe = regexp.MustCompile(`expects to execute seq=(\d+), idx=(\d+), but get seq=(\d+)`)

func ordScenario(w *vlog.W, a *wargs, id int, rng *rand.Rand, viol func(sig, detail string)) (shape string, nontrivial bool) {
	self := os.Getenv("VERIF_SELF")
	if self == "" {
		self, _ = os.Executable()
	}
	kind := []string{"raft3", "solo", "raft4", "raft3"}[(id-1)%4]
	w.Count("scenario:"+kind, 1)
	n := 3
	typ := "raft"
	switch kind {
	case "raft4":
		n = 4
	case "solo":
		n, typ = 1, "solo"
	}
	base := filepath.Join(a.Work, fmt.Sprintf("ord-%d", id))
	os.RemoveAll(base)
	os.MkdirAll(base, 0755)
	if os.Getenv("VERIF_KEEP") == "" {
		defer os.RemoveAll(base)
	}
	nw := &ordNet{children: map[uint64]*ordChild{}, rng: rand.New(rand.NewSource(rng.Int63())), isolated: map[uint64]bool{}, delivered: map[uint64]uint64{}, stats: map[string]int64{},
		self: self, typ: typ, n: n, batch: 1 + rng.Intn(5), base: base}
	if rng.Intn(2) == 0 {
		nw.dropP, nw.dupP = 0.03, 0.03
	}
	nw.lag = []int{0, 5, 20, 60}[rng.Intn(4)]
	nw.timed = rng.Intn(4) == 0
	if nw.timed {
		w.Count("scenario:timed-block-generation", 1)
	}
	// two of three scenarios: committed blocks, executed-block reports and peer messages pass through the
	// node's real feed hub (internal/app) instead of the harness's own loop
	nw.feedhub = id%3 != 0
	if nw.feedhub {
		w.Count("scenario:through-real-feed-hub", 1)
		// the real executor announces each executed block from a goroutine of its own: in every second of these
		// scenarios so does the stand-in, and reports of execution reach the order layer out of order
		nw.unordered = id%2 == 0
		if nw.unordered {
			w.Count("scenario:execution-reports-overtake-each-other", 1)
		}
	}
	nw.propLoss = typ == "raft" && rng.Intn(3) == 0
	if nw.propLoss {
		w.Count("scenario:forwarded-proposals-lost", 1)
	}
	nw.slowProp = typ == "raft" && rng.Intn(3) == 0
	nw.hookSeed = rng.Int63n(1 << 30)
	if nw.slowProp {
		w.Count("scenario:batches-wait-before-propose", 1)
	}
	nw.maxDelay = time.Duration(rng.Intn(15)) * time.Millisecond
	for i := 1; i <= n; i++ {
		nw.children[uint64(i)] = &ordChild{id: uint64(i), dir: filepath.Join(base, fmt.Sprintf("node%d", i))}
	}
	for i := 1; i <= n; i++ {
		if err := nw.spawn(uint64(i), nil); err != nil {
			w.Inconclusive("spawn: " + err.Error())
			return kind, false
		}
	}
	defer func() {
		for i := 1; i <= n; i++ {
			nw.kill(uint64(i))
		}
	}()
	// ---- transactions: 3 accounts, nonces in order (sometimes a pair swapped), sent to random nodes
	submitted := map[string]bool{}
	nextNonce := [3]uint64{}
	var allTx []string
	sendRaw := func(raw string) {
		alive := []uint64{}
		for i := 1; i <= n; i++ {
			if c := nw.children[uint64(i)]; c != nil && c.isAlive() {
				alive = append(alive, uint64(i))
			}
		}
		if len(alive) == 0 {
			return
		}
		// every node gets client traffic; a tx reaches the others by the nodes' own broadcast
		nw.children[alive[rng.Intn(len(alive))]].send(&wireMsg{T: "tx", Data: raw})
	}
	submit := func() {
		acct := rng.Intn(3)
		tx := &pb.BxhTransaction{From: poolAcctAddr(acct), To: poolAcctAddr(99), Nonce: nextNonce[acct], Timestamp: time.Now().UnixNano(), Payload: []byte(fmt.Sprintf("c%d", id))}
		nextNonce[acct]++
		tx.TransactionHash = tx.Hash()
		submitted[tx.GetHash().String()] = true
		b, _ := tx.MarshalWithFlag()
		raw := base64.StdEncoding.EncodeToString(b)
		allTx = append(allTx, raw)
		sendRaw(raw)
	}
	// a client signs a few transactions of one account in one go, the later nonces first: their timestamps run
	// against their nonces, and all of them reach one node together
	submitInverted := func() {
		acct := rng.Intn(3)
		k := 2 + rng.Intn(3)
		base := time.Now().UnixNano()
		var raws []string
		for i := 0; i < k; i++ {
			tx := &pb.BxhTransaction{From: poolAcctAddr(acct), To: poolAcctAddr(99), Nonce: nextNonce[acct], Timestamp: base - int64(i)*1000, Payload: []byte(fmt.Sprintf("c%d-inv", id))}
			nextNonce[acct]++
			tx.TransactionHash = tx.Hash()
			submitted[tx.GetHash().String()] = true
			b, _ := tx.MarshalWithFlag()
			raw := base64.StdEncoding.EncodeToString(b)
			allTx = append(allTx, raw)
			raws = append(raws, raw)
		}
		alive := []uint64{}
		for i := 1; i <= n; i++ {
			if c := nw.children[uint64(i)]; c != nil && c.isAlive() {
				alive = append(alive, uint64(i))
			}
		}
		if len(alive) == 0 {
			return
		}
		to := nw.children[alive[rng.Intn(len(alive))]]
		for i := len(raws) - 1; i >= 0; i-- { // highest nonce first
			to.send(&wireMsg{T: "tx", Data: raws[i]})
		}
	}
	// clients resubmit: a transaction whose node died (or that was refused for lack of a leader) is offered
	// again, also when it was committed long ago - the order layer has to keep it out of a second block
	resubmit := func(all bool) {
		from := 0
		if !all && len(allTx) > 60 {
			from = len(allTx) - 60 - rng.Intn(len(allTx)-60+1)
		}
		for _, raw := range allTx[from:] {
			sendRaw(raw)
		}
	}
	events := map[string]int{}
	deadline := time.Now().Add(time.Duration(3500+rng.Intn(2500)) * time.Millisecond)
	time.Sleep(400 * time.Millisecond) // let a leader emerge
	for time.Now().Before(deadline) {
		for k := 0; k < 1+rng.Intn(4); k++ {
			submit()
		}
		if rng.Intn(5) == 0 {
			submitInverted()
			events["inverted-timestamps"]++
		}
		time.Sleep(time.Duration(5+rng.Intn(40)) * time.Millisecond)
		if rng.Intn(12) == 0 {
			resubmit(false)
			events["resubmit"]++
		}
		switch x := rng.Intn(100); {
		case (x < 5 || (nw.slowProp && x >= 96)) && n > 1: // isolate a node for a while: half of the time the (presumed) leader, right after a burst
			victim := uint64(1 + rng.Intn(n))
			if rng.Intn(2) == 0 || (nw.slowProp && rng.Intn(3) != 0) {
				if b := nw.busiest(); b != 0 {
					victim = b
					for k := 0; k < 2+rng.Intn(5); k++ {
						submit() // entries that are in flight when the leader disappears
					}
					events["partition-of-busiest"]++
				}
			}
			nw.mu.Lock()
			nw.isolated[victim] = true
			nw.mu.Unlock()
			events["partition"]++
			d := time.Duration(300+rng.Intn(600)) * time.Millisecond
			time.AfterFunc(d, func() {
				nw.mu.Lock()
				delete(nw.isolated, victim)
				nw.mu.Unlock()
			})
		case x < 10: // kill -9 and restart from disk
			victim := uint64(1 + rng.Intn(n))
			if c := nw.children[victim]; c != nil && c.isAlive() {
				nw.kill(victim)
				events["kill"]++
				time.Sleep(time.Duration(100+rng.Intn(400)) * time.Millisecond)
				var env []string
				var extra []string
				switch rng.Intn(6) {
				case 0:
					env = []string{"VERIF_ORD_KILL=before-log"}
					extra = []string{"-kill-after-deliveries", fmt.Sprint(1 + rng.Intn(3))}
					events["kill-at:before-log"]++
				case 1:
					env = []string{"VERIF_ORD_KILL=after-log"}
					extra = []string{"-kill-after-deliveries", fmt.Sprint(1 + rng.Intn(3))}
					events["kill-at:after-log"]++
				case 2:
					if typ == "raft" {
						p := []string{"raft.after_mint", "raft.before_write_applied", "raft.after_write_applied"}[rng.Intn(3)]
						env = []string{fmt.Sprintf("VERIF_HOOKS=%s=kill:%d", p, 1+rng.Intn(3))}
						events["kill-at:"+p]++
					}
				}
				if err := nw.spawn(victim, env, extra...); err != nil {
					w.Inconclusive("respawn: " + err.Error())
					return kind, false
				}
				if env != nil {
					// the armed incarnation will die by itself; bring a plain one up afterwards
					go func(v uint64) {
						time.Sleep(1200 * time.Millisecond)
						if c := nw.children[v]; c != nil && !c.isAlive() {
							nw.spawn(v, nil)
						}
					}(victim)
				}
			}
		}
	}
	// ---- quiesce: heal, restart dead nodes, wait for the replicas to converge
	nw.mu.Lock()
	nw.isolated = map[uint64]bool{}
	nw.dropP, nw.dupP = 0, 0
	nw.mu.Unlock()
	time.Sleep(1300 * time.Millisecond)
	for i := 1; i <= n; i++ {
		if c := nw.children[uint64(i)]; c != nil && !c.isAlive() {
			nw.spawn(uint64(i), nil)
		}
	}
	resubmit(true)
	waitUntil := time.Now().Add(10 * time.Second)
	for round := 0; time.Now().Before(waitUntil); round++ {
		time.Sleep(200 * time.Millisecond)
		if round%10 == 9 {
			resubmit(true)
		}
		nw.mu.Lock()
		var hs []uint64
		for i := 1; i <= n; i++ {
			hs = append(hs, nw.delivered[uint64(i)])
		}
		nw.mu.Unlock()
		same := true
		for _, h := range hs {
			if h != hs[0] {
				same = false
			}
		}
		if same && hs[0] > 0 {
			break
		}
	}
	for i := 1; i <= n; i++ {
		nw.kill(uint64(i))
	}
	time.Sleep(100 * time.Millisecond)
	// ---- offline oracle over the durable delivery logs
	logs := map[uint64][]ordLogRec{}
	maxH := uint64(0)
	for i := 1; i <= n; i++ {
		logs[uint64(i)] = readOrdLog(filepath.Join(base, fmt.Sprintf("node%d", i), "delivered.jsonl"))
	}
	byHeight := map[uint64]ordLogRec{}
	txAt := map[string]uint64{}
	for i := 1; i <= n; i++ {
		recs := logs[uint64(i)]
		last := uint64(0)
		lastInc := 0
		for _, r := range recs {
			w.Count("deliveries_checked", 1)
			if r.H != last+1 {
				kindv := "gap"
				if r.H <= last {
					kindv = "repeat"
				}
				sameInc := "same-incarnation"
				if r.Inc != lastInc {
					sameInc = "after-restart"
				}
				viol(fmt.Sprintf("delivery:%s:%s:%s", kindv, typ, sameInc), fmt.Sprintf("%s replica %d was handed height %d after height %d (incarnation %d -> %d); events %v", kind, i, r.H, last, lastInc, r.Inc, events))
			}
			if r.H > last {
				last = r.H
			}
			lastInc = r.Inc
			if ref, ok := byHeight[r.H]; ok {
				if strings.Join(ref.Txs, ",") != strings.Join(r.Txs, ",") || ref.TS != r.TS {
					viol("delivery:replicas-differ:"+typ, fmt.Sprintf("%s height %d differs between replicas: %v@%d vs %v@%d", kind, r.H, ref.Txs, ref.TS, r.Txs, r.TS))
				}
			} else {
				byHeight[r.H] = r
				for _, t := range r.Txs {
					if h0, dup := txAt[t]; dup && h0 != r.H {
						viol("delivery:tx-in-two-blocks:"+typ, fmt.Sprintf("%s tx %s is in block %d and in block %d", kind, t, h0, r.H))
					}
					txAt[t] = r.H
					if !submitted[t] {
						viol("delivery:unknown-tx:"+typ, fmt.Sprintf("%s block %d contains tx %s that was never submitted", kind, r.H, t))
					}
				}
			}
			if r.H > maxH {
				maxH = r.H
			}
		}
	}
	nw.mu.Lock()
	for k, v := range nw.stats {
		w.Count(k, v)
	}
	nw.mu.Unlock()
	for k, v := range events {
		w.Count("event:"+k, int64(v))
	}
	w.Count("heights_delivered", int64(maxH))
	w.Count("txs_delivered", int64(len(txAt)))
	w.Count("txs_submitted", int64(len(submitted)))
	// leader changes / snapshot catch-ups as seen in the nodes' logs
	// the node's own account of a committed batch it did not deliver: legitimate when the batch is at or below
	// the last executed height (replay, or a deposed leader's duplicate). A batch *above* the expected height is
	// a skipped entry when this replica stands alone with it (the others executed what lies in between and
	// this one never will). When another replica refused the very same log entry (same raft index, same
	// height) nobody executed it: a batch that a deposed leader had cut ahead of what was ever committed
	// reached the log through its successor (forwarded proposal) - refusing it is the only answer that keeps
	// heights consecutive, and its transactions are still in the pools.
	type ign struct{ want, idx, got uint64 }
	ignored := map[uint64][]ign{}
	refusedBy := map[[2]uint64]map[uint64]bool{} // (raft index, height) -> replicas that refused it
	for i := 1; i <= n; i++ {
		b, _ := ioutil.ReadFile(filepath.Join(base, fmt.Sprintf("node%d.stderr", i)))
		s := string(b)
		w.Count("obs_leader_changes", int64(strings.Count(s, "Raft leader changed")))
		w.Count("obs_proposals_refused_by_raft", int64(strings.Count(s, "Failed to propose block")))
		for _, mm := range ignoreRe.FindAllStringSubmatch(s, -1) {
			var g ign
			fmt.Sscan(mm[1], &g.want)
			fmt.Sscan(mm[2], &g.idx)
			fmt.Sscan(mm[3], &g.got)
			ignored[uint64(i)] = append(ignored[uint64(i)], g)
			k := [2]uint64{g.idx, g.got}
			if refusedBy[k] == nil {
				refusedBy[k] = map[uint64]bool{}
			}
			refusedBy[k][uint64(i)] = true
		}
	}
	for i := 1; i <= n; i++ {
		for _, g := range ignored[uint64(i)] {
			if g.got <= g.want {
				w.Count("obs_ignored_stale_batches", 1)
				continue
			}
			if len(refusedBy[[2]uint64{g.idx, g.got}]) > 1 {
				w.Count("obs_orphan_batches_ahead_refused", 1)
				continue
			}
			viol("delivery:entry-skipped:"+typ, fmt.Sprintf("%s replica %d ignored the committed batch of height %d (raft index %d) while waiting for height %d, and no other replica refused that entry: the entry of height %d was compacted away or skipped without having been executed; events %v", kind, i, g.got, g.idx, g.want, g.want, events))
		}
	}
	for i := 1; i <= n; i++ {
		for _, r := range logs[uint64(i)] {
			if r.Src == "sync" {
				w.Count("obs_blocks_via_sync", 1)
			}
		}
	}
	if maxH == 0 {
		w.Count("obs_scenarios_without_delivery", 1)
		return kind + "|nothing-delivered", false
	}
	var ev []string
	for k := range events {
		ev = append(ev, k)
	}
	sort.Strings(ev)
	return fmt.Sprintf("%s|b%d|loss%v|timed%v|lag%d|slowprop%v|%s", kind, nw.batch, nw.dropP > 0, nw.timed, nw.lag, nw.slowProp, strings.Join(ev, ",")), len(ev) > 0
}

func ord20Workload(args []string) int {
	a := parseArgs("ord20", args, nil)
	w := vlog.Open(a.Out)
	for id := a.From; id < a.To; id++ {
		rng := vlog.CaseRand(a.Seed, "ord20", id)
		w.CaseStart(id, nil)
		seen := map[string]bool{}
		viol := func(sig, detail string) {
			if seen[sig] {
				return
			}
			seen[sig] = true
			w.Violation(sig, detail, nil)
		}
		guard(w, "ord20", func() {
			if id == 0 {
				syncRangeCase(w, viol)
				w.Sample(map[string]interface{}{"case": 0, "kind": "all (begin,end,fetch) sync ranges with 1<=begin<=end<=40, fetch in {1,2,3,5,7}"})
				w.CaseDone("sync-ranges", true)
				return
			}
			shape, nt := ordScenario(w, a, id, rng, viol)
			if id == 1 {
				w.Sample(map[string]interface{}{"case": id, "shape": shape})
			}
			w.CaseDone(shape, nt)
		})
	}
	w.End()
	return 0
}
