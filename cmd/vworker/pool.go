package main

import (
	"encoding/json"
	"fmt"
	"io/ioutil"
	"math/rand"
	"os"
	"strings"
	"sync"
	"time"

	"github.com/meshplus/bitxhub-kit/types"
	"github.com/meshplus/bitxhub-model/pb"
	"github.com/meshplus/bitxhub/pkg/order/mempool"
	"github.com/meshplus/bitxhub/verif/model"
	"github.com/meshplus/bitxhub/verif/vlog"
	"github.com/sirupsen/logrus"
)

func init() {
	workloads["pool18"] = func(a []string) int { return poolWorkload("C18", a) }
	workloads["pool19"] = func(a []string) int { return poolWorkload("C19", a) }
}

var debug = os.Getenv("VERIF_DEBUG") != ""

// poolOp is one concrete, replayable call of the pool API.
type poolOp struct {
	Op     string   `json:"op"`
	Txs    []string `json:"txs,omitempty"` // "acct/nonce/variant@ts"
	Leader bool     `json:"leader,omitempty"`
	Local  bool     `json:"local,omitempty"`
	Arg    int64    `json:"arg,omitempty"`
	Hashes []string `json:"hashes,omitempty"`
	Note   string   `json:"note,omitempty"`
}

type poolCfg struct {
	BatchSize uint64            `json:"batch_size"`
	Timed     bool              `json:"timed,omitempty"` // timed-block mode: batches only on GenerateBlock, also empty ones
	PoolSize  uint64            `json:"pool_size"`
	StartSeq  uint64            `json:"start_seq"`
	Ledger    map[string]uint64 `json:"ledger"` // account index -> committed nonce at start
}

func poolAcctAddr(i int) *types.Address {
	return types.NewAddress([]byte(fmt.Sprintf("pool-account-%02d......", i))[:20])
}

func mkPoolTx(key string) pb.Transaction {
	var acct, variant int
	var nonce uint64
	var ts int64
	fmt.Sscanf(strings.Replace(strings.Replace(key, "/", " ", -1), "@", " ", -1), "%d %d %d %d", &acct, &nonce, &variant, &ts)
	tx := &pb.BxhTransaction{
		From:      poolAcctAddr(acct),
		To:        poolAcctAddr(99),
		Nonce:     nonce,
		Timestamp: ts,
		Payload:   []byte(fmt.Sprintf("v%d", variant)),
	}
	tx.TransactionHash = tx.Hash()
	return tx
}

func toModelTx(tx pb.Transaction) model.PoolTx {
	return model.PoolTx{Account: tx.GetFrom().String(), Nonce: tx.GetNonce(), Hash: tx.GetHash().String()}
}

type poolViol struct{ sig, detail string }

type poolRun struct {
	prop      string
	cfg       poolCfg
	pool      mempool.MemPool
	m         *model.Pool
	ledger    map[string]uint64
	seq       uint64
	ops       []poolOp
	batches   [][]pb.Transaction // generated, not yet committed
	viols     []poolViol
	stats     map[string]int64
	shape     map[string]bool
	foreign   []string   // keys of txs committed by blocks produced elsewhere, never given to the pool before
	announced [][]string // blocks minted elsewhere that were announced (MarkBatched) and are not committed yet
	// C19, a few flagged cases: one op that needs real elapsed time (see "supersede-evict")
	timing, timingDone bool
	protect            string // hash of a tx the eviction just observed must not have taken
	// C19, one case in eight: reader goroutines call GetPendingNonceByAccount all the time (poolconc.go)
	concurrent bool
	ledMu      sync.RWMutex
	nAcct      int
	conc       *concRec
}

func newPoolRun(prop string, cfg poolCfg) *poolRun { return newPoolRunConc(prop, cfg, 0) }

// newPoolRunConc: nAcct > 0 turns the concurrent readers on (C19 only).
func newPoolRunConc(prop string, cfg poolCfg, nAcct int) *poolRun {
	pr := &poolRun{prop: prop, cfg: cfg, ledger: map[string]uint64{}, stats: map[string]int64{}, shape: map[string]bool{}, seq: cfg.StartSeq, concurrent: nAcct > 0, nAcct: nAcct}
	for k, v := range cfg.Ledger {
		var i int
		fmt.Sscanf(k, "%d", &i)
		pr.ledger[poolAcctAddr(i).String()] = v
	}
	pr.newPool()
	return pr
}

func (pr *poolRun) newPool() {
	lg := logrus.New()
	lg.SetOutput(ioutil.Discard)
	lg.SetLevel(logrus.PanicLevel)
	led := pr.ledger // live: the pool reads the ledger's nonce whenever it first meets an account
	pr.pool = mempool.NewMemPool(&mempool.Config{
		ID: 1, BatchSize: pr.cfg.BatchSize, PoolSize: pr.cfg.PoolSize, TxSliceSize: 3, ChainHeight: pr.seq, Logger: lg, IsTimed: pr.cfg.Timed,
		GetAccountNonce: func(a *types.Address) uint64 { // the ledger is thread-safe in the node: so is this stand-in
			pr.ledMu.RLock()
			defer pr.ledMu.RUnlock()
			return led[a.String()]
		},
	})
	pr.m = model.NewPool(pr.cfg.BatchSize, pr.seq, func(a string) uint64 { return led[a] })
	pr.batches = nil
	if pr.concurrent {
		real := pr.pool
		if pr.conc == nil {
			var accts []string
			for i := 0; i < pr.nAcct; i++ {
				accts = append(accts, poolAcctAddr(i).String())
			}
			pr.conc = newConcRec(accts, real)
		} else {
			// a restarted node: from now on the API goroutines talk to the new pool
			call := pr.conc.begin()
			pr.conc.cur.Store(&real)
			pr.conc.wrote(call, "restart")
		}
		pr.pool = &recPool{MemPool: real, c: pr.conc}
	}
}

func (pr *poolRun) setLedger(a string, n uint64) {
	var call [2]int64
	if pr.conc != nil {
		call = pr.conc.begin()
	}
	pr.ledMu.Lock()
	pr.ledger[a] = n
	pr.ledMu.Unlock()
	if pr.conc != nil {
		// for an account the pool does not know, the pending nonce is the ledger's nonce: the executor's commit is a
		// write of the history too
		pr.conc.wrote(call, "ledger")
	}
}

func (pr *poolRun) violation(sig, detail string) {
	pr.viols = append(pr.viols, poolViol{sig, detail})
}

func (pr *poolRun) checkBatch(b []pb.Transaction, height uint64, src string) {
	var mt []model.PoolTx
	var real []pb.Transaction
	for i, tx := range b {
		if tx == nil {
			if pr.prop == "C18" {
				pr.violation("batch:nil-tx", fmt.Sprintf("%s returned a batch whose entry %d is nil (pointer to a tx the pool no longer holds)", src, i))
			}
			continue
		}
		mt = append(mt, toModelTx(tx))
		real = append(real, tx)
	}
	if debug {
		var d []string
		for _, t := range mt {
			d = append(d, fmt.Sprintf("%s/%d", t.Account[len(t.Account)-6:], t.Nonce))
		}
		fmt.Fprintf(os.Stderr, "   BATCH h=%d %v\n", height, d)
	}
	vs := pr.m.CheckBatch(height, mt, false)
	if pr.prop == "C18" {
		for _, v := range vs {
			pr.violation(v[0], src+": "+v[1])
		}
	}
	pr.seq = height
	if len(real) > 0 {
		pr.batches = append(pr.batches, real)
		pr.stats["batches"]++
		pr.stats["batched_txs"] += int64(len(real))
	}
}

// observe runs the C19 oracle after a step. evictAll tells whether the step was an eviction with
// a tolerance that every transaction exceeds.
func (pr *poolRun) observe(evictAll bool) {
	for _, tx := range pr.m.Held() {
		got := pr.pool.GetTransaction(types.NewHashByStr(tx.Hash))
		ok := got != nil && got.GetHash().String() == tx.Hash
		if ok {
			continue
		}
		if evictAll && tx.Hash != pr.protect && !pr.m.IsReady(tx) && !pr.m.IsBatched(tx) {
			pr.m.Evict(tx)
			pr.stats["evicted_by_age_rule"]++
			continue
		}
		if pr.prop == "C19" {
			kind := "parked"
			if pr.m.IsBatched(tx) {
				kind = "batched"
			} else if pr.m.IsReady(tx) {
				kind = "ready"
			}
			why := "GetTransaction returned nil"
			if got != nil {
				why = "GetTransaction returned another transaction " + got.GetHash().String()
			}
			pr.violation("lost-tx:"+kind, fmt.Sprintf("admitted tx %s/%d (%s) is neither committed, superseded, evicted by the age rule nor retrievable: %s", tx.Account, tx.Nonce, tx.Hash, why))
		}
		pr.m.Evict(tx) // resync
	}
	if pr.prop != "C19" {
		return
	}
	if n := pr.m.ReadyUnbatched(); n > 0 {
		pr.stats["obs_ready_unbatched_states"]++
		if !pr.pool.HasPendingRequest() {
			pr.violation("no-pending-report", fmt.Sprintf("%d ready, unbatched transaction(s) exist but HasPendingRequest() is false", n))
		}
	}
	for _, a := range pr.m.Accounts() {
		want := pr.m.Pending(a)
		got := pr.pool.GetPendingNonceByAccount(a)
		pr.stats["obs_pending_nonce_checks"]++
		if got != want {
			sig := "pending-nonce:mismatch"
			if got < pr.m.Commit(a) {
				sig = "pending-nonce:below-committed"
			}
			pr.violation(sig, fmt.Sprintf("account %s: pool reports pending nonce %d, next nonce that would become ready is %d (committed nonce %d)", a, got, want, pr.m.Commit(a)))
		}
	}
}

// apply executes one concrete op against the pool and the model.
func (pr *poolRun) apply(op poolOp) {
	pr.ops = append(pr.ops, op)
	if debug {
		fmt.Fprintf(os.Stderr, "%d %+v\n", len(pr.ops), op)
	}
	switch op.Op {
	case "process":
		var txs []pb.Transaction
		var mt []model.PoolTx
		for _, k := range op.Txs {
			tx := mkPoolTx(k)
			txs = append(txs, tx)
			mt = append(mt, toModelTx(tx))
		}
		pr.m.Given(mt)
		adm := pr.m.Admit(mt)
		pr.stats["txs_offered"] += int64(len(txs))
		pr.stats["txs_admitted"] += int64(len(adm))
		b := pr.pool.ProcessTransactions(txs, op.Leader, op.Local)
		if b != nil {
			pr.shape["process-batch"] = true
			pr.checkBatch(b.TxList.Transactions, b.Height, "ProcessTransactions")
		}
		pr.observe(false)
	case "generate":
		b := pr.pool.GenerateBlock()
		if b != nil {
			pr.checkBatch(b.TxList.Transactions, b.Height, "GenerateBlock")
		}
		pr.observe(false)
	case "commit":
		var hashes []*types.Hash
		in := map[string]bool{}
		for _, h := range op.Hashes {
			hashes = append(hashes, types.NewHashByStr(h))
			in[h] = true
		}
		// forget committed txs in the driver's in-flight list
		var nb [][]pb.Transaction
		for _, b := range pr.batches {
			var rest []pb.Transaction
			for _, tx := range b {
				if !in[tx.GetHash().String()] {
					rest = append(rest, tx)
				}
			}
			if len(rest) > 0 {
				nb = append(nb, rest)
			}
		}
		pr.batches = nb
		pr.m.CommitHashes(op.Hashes)
		for _, a := range pr.m.Accounts() {
			pr.setLedger(a, pr.m.Commit(a))
		}
		pr.pool.CommitTransactions(&mempool.ChainState{Height: pr.seq, TxHashList: hashes})
		pr.stats["commits"]++
		pr.observe(false)
	case "announce":
		var txs []pb.Transaction
		var mt []model.PoolTx
		for _, k := range op.Txs {
			tx := mkPoolTx(k)
			txs = append(txs, tx)
			mt = append(mt, toModelTx(tx))
		}
		pr.m.Given(mt) // a batch that later contains them is not "unknown"; batching them again is a repeat
		pr.pool.MarkBatched(txs)
		pr.m.MarkBatched(mt)
		pr.announced = append(pr.announced, op.Txs)
		pr.stats["foreign_blocks_announced"]++
		pr.observe(false)
	case "commit-announced":
		if len(pr.announced) == 0 {
			break
		}
		blk := pr.announced[0]
		pr.announced = pr.announced[1:]
		var hashes []*types.Hash
		for _, k := range blk {
			tx := mkPoolTx(k)
			hashes = append(hashes, tx.GetHash())
			pr.m.CommitForeign(tx.GetFrom().String(), tx.GetNonce()+1)
			pr.foreign = append(pr.foreign, k)
		}
		for _, a := range pr.m.Accounts() {
			pr.setLedger(a, pr.m.Commit(a))
		}
		pr.pool.CommitTransactions(&mempool.ChainState{Height: pr.seq, TxHashList: hashes})
		pr.stats["announced_blocks_committed"]++
		pr.observe(false)
	case "foreign":
		// a block produced by another node with txs this pool was never given: the ledger advances first
		// (the executor persists before it reports), then the commit notification arrives
		var hashes []*types.Hash
		var ftxs []pb.Transaction
		for _, k := range op.Txs {
			tx := mkPoolTx(k)
			ftxs = append(ftxs, tx)
			hashes = append(hashes, tx.GetHash())
			pr.m.CommitForeign(tx.GetFrom().String(), tx.GetNonce()+1)
			pr.foreign = append(pr.foreign, k)
		}
		if op.Arg == 1 {
			// as on a follower: the block is announced to the pool when it is minted (MarkBatched), executed, and
			// only then reported as committed
			pr.pool.MarkBatched(ftxs)
			pr.stats["foreign_blocks_marked_before_commit"]++
		}
		for _, a := range pr.m.Accounts() {
			pr.setLedger(a, pr.m.Commit(a))
		}
		pr.pool.CommitTransactions(&mempool.ChainState{Height: pr.seq, TxHashList: hashes})
		pr.stats["foreign_commits"]++
		pr.observe(false)
	case "minted":
		// a block minted elsewhere contains the next ready txs of an account: all replicas mark them
		var txs []pb.Transaction
		var mt []model.PoolTx
		for _, h := range op.Hashes {
			if tx := pr.pool.GetTransaction(types.NewHashByStr(h)); tx != nil {
				txs = append(txs, tx)
				mt = append(mt, toModelTx(tx))
			}
		}
		if len(txs) > 0 {
			pr.pool.MarkBatched(txs)
			pr.m.MarkBatched(mt)
			pr.batches = append(pr.batches, txs)
			pr.stats["minted_elsewhere"]++
		}
		pr.observe(false)
	case "supersede-evict":
		tol := time.Duration(op.Arg) * time.Millisecond
		time.Sleep(tol + 50*time.Millisecond) // everything held so far is now older than the tolerance
		tx := mkPoolTx(op.Txs[0])
		mt := []model.PoolTx{toModelTx(tx)}
		t0 := time.Now()
		pr.m.Given(mt)
		adm := pr.m.Admit(mt)
		pr.stats["txs_offered"]++
		pr.stats["txs_admitted"] += int64(len(adm))
		if b := pr.pool.ProcessTransactions([]pb.Transaction{tx}, false, true); b != nil {
			pr.checkBatch(b.TxList.Transactions, b.Height, "ProcessTransactions")
		}
		pr.pool.RemoveAliveTimeoutTxs(tol)
		if el := time.Since(t0); el < tol && len(adm) == 1 {
			// the newcomer is younger than the tolerance whatever the scheduler did in between: it must survive,
			// everything else that is parked may go
			pr.protect = tx.GetHash().String()
			pr.stats["obs_superseding_tx_under_age_rule"]++
			pr.shape["supersede-then-age-rule"] = true
		} else {
			pr.stats["timing_inconclusive"]++
		}
		pr.observe(true)
		pr.protect = ""
	case "mark-own-batch":
		if int(op.Arg) < len(pr.batches) {
			pr.pool.MarkBatched(pr.batches[op.Arg])
			pr.stats["own_batches_marked_again"]++
		}
		pr.observe(false)
	case "evict":
		d := 1000 * time.Hour
		if op.Arg < 0 {
			d = -time.Hour
		}
		pr.pool.RemoveAliveTimeoutTxs(d)
		pr.observe(op.Arg < 0)
	case "rebroadcast":
		d := 1000 * time.Hour
		if op.Arg < 0 {
			d = -time.Hour
		}
		lists := pr.pool.GetTimeoutTransactions(d)
		for _, l := range lists {
			for _, tx := range l {
				if tx == nil && pr.prop == "C19" {
					pr.violation("rebroadcast:nil-tx", "GetTimeoutTransactions returned a nil transaction")
				}
			}
		}
		pr.observe(false)
	case "setseq":
		pr.pool.SetBatchSeqNo(uint64(op.Arg))
		pr.m.SetSeq(uint64(op.Arg))
		pr.seq = uint64(op.Arg)
	case "restart":
		pr.newPool()
		pr.observe(false)
	case "drain":
		pr.drain()
	}
	if debug {
		for _, a := range pr.m.Accounts() {
			fmt.Fprintf(os.Stderr, "      %s commit=%d pend(model)=%d pend(pool)=%d\n", a[len(a)-6:], pr.m.Commit(a), pr.m.Pending(a), pr.pool.GetPendingNonceByAccount(a))
		}
	}
}

// gen draws the next op from the PRNG, looking at the model only to aim nonces at interesting places.
func (pr *poolRun) gen(r *rand.Rand, nAcct int, ts *int64, known map[string]string) poolOp {
	op := poolOp{}
	x := r.Intn(100)
	if pr.timing && !pr.timingDone && len(pr.ops) > 12 {
		// once per flagged case: a parked transaction that has been waiting longer than the tolerance is superseded
		// by another one for its slot, and the age rule runs right away: the newcomer is young
		for _, tx := range pr.m.Held() {
			if pr.m.IsReady(tx) || pr.m.IsBatched(tx) {
				continue
			}
			for a := 0; a < nAcct; a++ {
				if poolAcctAddr(a).String() == tx.Account {
					*ts++
					op.Op, op.Arg, op.Note = "supersede-evict", 150, "supersede-then-age-rule"
					op.Txs = []string{fmt.Sprintf("%d/%d/%d@%d", a, tx.Nonce, 9, *ts)}
					pr.timingDone = true
					return op
				}
			}
		}
	}
	switch {
	case x < 48: // arrivals (x in 48..53: foreign block / block minted elsewhere)
		op.Op = "process"
		n := 1 + r.Intn(4)
		for i := 0; i < n; i++ {
			acct := r.Intn(nAcct)
			addr := poolAcctAddr(acct).String()
			base := pr.m.Pending(addr)
			var nonce uint64
			switch y := r.Intn(10); {
			case y < 5:
				nonce = base
			case y < 8:
				nonce = base + uint64(1+r.Intn(3))
			case y < 9:
				c := pr.m.Commit(addr)
				if c > 0 {
					nonce = uint64(r.Int63n(int64(c)))
				}
			default:
				if base > 0 {
					nonce = base - 1
				}
			}
			variant := 0
			if r.Intn(6) == 0 {
				variant = 1 + r.Intn(2)
			}
			*ts++
			t := *ts
			switch r.Intn(5) {
			case 0:
				t = *ts - int64(r.Intn(20))
			case 1:
				t = 1000 // many equal timestamps
			}
			if len(pr.announced) > 0 && r.Intn(3) == 0 {
				// a transaction of a block that was announced (minted elsewhere) but is not committed yet arrives now
				blk := pr.announced[r.Intn(len(pr.announced))]
				op.Txs = append(op.Txs, blk[r.Intn(len(blk))])
				op.Note = "late-arrival-of-announced-tx"
				continue
			}
			if len(pr.foreign) > 0 && r.Intn(7) == 0 {
				// a client re-sends a tx that a block produced elsewhere has already committed
				op.Txs = append(op.Txs, pr.foreign[r.Intn(len(pr.foreign))])
				op.Note = "resend-foreign-committed"
				continue
			}
			id := fmt.Sprintf("%d/%d/%d", acct, nonce, variant)
			key, ok := known[id]
			if !ok {
				key = fmt.Sprintf("%s@%d", id, t)
				known[id] = key
			}
			op.Txs = append(op.Txs, key)
		}
		op.Leader = r.Intn(3) != 0
		op.Local = r.Intn(2) == 0
	case x < 51 && len(pr.announced) > 0 && r.Intn(2) == 0:
		op.Op = "commit-announced"
		op.Note = "commit-announced"
	case x < 51:
		op.Op = "foreign"
		acct := r.Intn(nAcct)
		addr := poolAcctAddr(acct).String()
		base := pr.m.Commit(addr)
		k := 1 + r.Intn(3)
		for i := 0; i < k; i++ {
			*ts++
			op.Txs = append(op.Txs, fmt.Sprintf("%d/%d/%d@%d", acct, base+uint64(i), 7, *ts))
		}
		op.Note = "commit-foreign"
		op.Arg = int64(r.Intn(2))
		if len(pr.announced) == 0 && pr.m.Next(addr) <= base && r.Intn(3) == 0 {
			// only announced for now (MarkBatched, as when a follower mints the block); the commit follows later
			op.Op, op.Note = "announce", "announce-foreign"
		}
		if pr.m.Next(addr) > base {
			op.Note = "commit-foreign-over-own-batch"
		}
	case x < 54 && len(pr.batches) > 0 && r.Intn(2) == 0:
		// the node applies a block it has cut itself: every replica, the leader included, is told that the
		// block's transactions are batched (they already are, here)
		op.Op, op.Note = "mark-own-batch", "mark-own-batch"
		op.Arg = int64(r.Intn(len(pr.batches)))
	case x < 54:
		op.Op = "minted"
		for _, a := range pr.m.Accounts() {
			nx, pend := pr.m.Next(a), pr.m.Pending(a)
			if pend > nx {
				k := uint64(1 + r.Intn(3))
				for _, tx := range pr.m.Held() {
					if tx.Account == a && tx.Nonce >= nx && tx.Nonce < nx+k && tx.Nonce < pend {
						op.Hashes = append(op.Hashes, tx.Hash)
					}
				}
				op.Note = "minted-elsewhere"
				break
			}
		}
	case x < 66:
		op.Op = "generate"
	case x < 86:
		op.Op = "commit"
		y := r.Intn(10)
		switch {
		case y < 6 && len(pr.batches) > 0: // oldest batch in full
			for _, tx := range pr.batches[0] {
				op.Hashes = append(op.Hashes, tx.GetHash().String())
			}
			op.Note = "commit-full"
		case y < 7 && len(pr.batches) > 1: // a later batch first (out of order)
			k := 1 + r.Intn(len(pr.batches)-1)
			for _, tx := range pr.batches[k] {
				op.Hashes = append(op.Hashes, tx.GetHash().String())
			}
			op.Note = "commit-out-of-order"
		case y < 8 && len(pr.batches) > 0: // partial
			for _, tx := range pr.batches[0] {
				if r.Intn(2) == 0 {
					op.Hashes = append(op.Hashes, tx.GetHash().String())
				}
			}
			op.Note = "commit-partial"
		case y < 9: // unknown hashes
			op.Hashes = append(op.Hashes, types.NewHash([]byte(fmt.Sprintf("unknown-hash-%020d-xxxxxxxxxxx", r.Int63()))[:32]).String())
			op.Note = "commit-unknown"
		default: // a block produced elsewhere that contains a held, not yet batched tx
			held := pr.m.Held()
			if len(held) > 0 {
				tx := held[r.Intn(len(held))]
				op.Hashes = append(op.Hashes, tx.Hash)
				if !pr.m.IsBatched(tx) {
					if pr.m.IsReady(tx) {
						op.Note = "commit-elsewhere-ready"
					} else {
						op.Note = "commit-elsewhere-parked"
					}
				}
			}
		}
	case x < 91:
		op.Op = "evict"
		if r.Intn(2) == 0 {
			op.Arg = -1
			op.Note = "evict-all"
		}
	case x < 95:
		op.Op = "rebroadcast"
		if r.Intn(2) == 0 {
			op.Arg = -1
		}
	case x < 97:
		op.Op = "setseq"
		op.Arg = int64(pr.seq) + int64(r.Intn(3))
		op.Note = "setseq"
		if r.Intn(2) == 0 && pr.seq > 0 {
			// back to a lower number: a leader whose last batches were never ordered is reset to the executed height
			op.Arg = int64(pr.seq) - int64(1+r.Intn(2))
			if op.Arg < 0 {
				op.Arg = 0
			}
			op.Note = "setseq-lower"
		}
	default:
		op.Op = "restart"
		op.Note = "restart"
	}
	return op
}

// drain checks bounded progress: with no new arrivals, ceil(ready/batch)+1 rounds of
// GenerateBlock+commit hand out every ready transaction.
func (pr *poolRun) drain() {
	commitAll := func(b []pb.Transaction) {
		var hashes []*types.Hash
		var hs []string
		for _, tx := range b {
			hashes = append(hashes, tx.GetHash())
			hs = append(hs, tx.GetHash().String())
		}
		pr.m.CommitHashes(hs)
		for _, a := range pr.m.Accounts() {
			pr.setLedger(a, pr.m.Commit(a))
		}
		pr.pool.CommitTransactions(&mempool.ChainState{Height: pr.seq, TxHashList: hashes})
	}
	for _, b := range pr.batches {
		commitAll(b)
	}
	pr.batches = nil
	pr.observe(false)
	ready := pr.m.ReadyUnbatched()
	rounds := (ready+int(pr.cfg.BatchSize)-1)/int(pr.cfg.BatchSize) + 1
	for i := 0; i < rounds; i++ {
		b := pr.pool.GenerateBlock()
		if b == nil {
			continue
		}
		pr.checkBatch(b.TxList.Transactions, b.Height, "GenerateBlock(drain)")
		for _, bb := range pr.batches {
			commitAll(bb)
		}
		pr.batches = nil
		pr.observe(false)
	}
	if pr.prop == "C19" {
		if left := pr.m.ReadyUnbatched(); left > 0 {
			pr.violation("progress:ready-tx-not-batched", fmt.Sprintf("%d ready transaction(s) still not handed out after %d GenerateBlock+commit rounds without new arrivals (had %d ready, batch size %d)", left, rounds, ready, pr.cfg.BatchSize))
		}
		pr.stats["drain_rounds"] += int64(rounds)
		pr.stats["drained_ready_txs"] += int64(ready)
	}
}

// replayPool runs a concrete op list on a fresh pool and returns the violation signatures seen.
func replayPool(prop string, cfg poolCfg, ops []poolOp) (sigs map[string]string) {
	sigs = map[string]string{}
	defer func() {
		if p := recover(); p != nil {
			sigs["pool:panic"] = fmt.Sprint(p)
		}
	}()
	pr := newPoolRun(prop, cfg)
	for _, op := range ops {
		pr.apply(op)
	}
	for _, v := range pr.viols {
		if _, ok := sigs[v.sig]; !ok {
			sigs[v.sig] = v.detail
		}
	}
	return sigs
}

// shrinkPool greedily removes ops (and single txs / hashes inside ops) while the signature persists.
func shrinkPool(prop string, cfg poolCfg, ops []poolOp, sig string) []poolOp {
	has := func(o []poolOp) bool { _, ok := replayPool(prop, cfg, o)[sig]; return ok }
	if !has(ops) {
		return ops
	}
	cur := append([]poolOp{}, ops...)
	budget := 4000
	for changed := true; changed && budget > 0; {
		changed = false
		for i := len(cur) - 1; i >= 0 && budget > 0; i-- {
			cand := append(append([]poolOp{}, cur[:i]...), cur[i+1:]...)
			budget--
			if has(cand) {
				cur = cand
				changed = true
			}
		}
		for i := range cur {
			for j := len(cur[i].Txs) - 1; j >= 0 && len(cur[i].Txs) > 1 && budget > 0; j-- {
				cand := append([]poolOp{}, cur...)
				o := cand[i]
				o.Txs = append(append([]string{}, o.Txs[:j]...), o.Txs[j+1:]...)
				cand[i] = o
				budget--
				if has(cand) {
					cur = cand
					changed = true
				}
			}
			for j := len(cur[i].Hashes) - 1; j >= 0 && len(cur[i].Hashes) > 1 && budget > 0; j-- {
				cand := append([]poolOp{}, cur...)
				o := cand[i]
				o.Hashes = append(append([]string{}, o.Hashes[:j]...), o.Hashes[j+1:]...)
				cand[i] = o
				budget--
				if has(cand) {
					cur = cand
					changed = true
				}
			}
		}
	}
	return cur
}

func poolWorkload(prop string, args []string) int {
	a := parseArgs("pool", args, nil)
	w := vlog.Open(a.Out)
	if f := os.Getenv("VERIF_POOL_REPLAY"); f != "" { // replay a concrete witness: {"cfg":..,"ops":..}
		b, _ := ioutil.ReadFile(f)
		var wit struct {
			Cfg poolCfg  `json:"cfg"`
			Ops []poolOp `json:"ops"`
		}
		json.Unmarshal(b, &wit)
		for s, d := range replayPool(prop, wit.Cfg, wit.Ops) {
			fmt.Println(s, ":", d)
		}
		return 0
	}
	steps := 80
	shrunk := map[string]bool{}
	for id := a.From; id < a.To; id++ {
		rng := vlog.CaseRand(a.Seed, "pool", id) // C18 and C19 see the same histories
		if prop == "C19" && id%25 == 24 {
			guard(w, "txcache", func() { txCacheCase(w, id, rng) })
			continue
		}
		cfg := poolCfg{BatchSize: uint64(1 + rng.Intn(8)), PoolSize: uint64(4 + rng.Intn(47)), StartSeq: uint64(rng.Intn(5)), Ledger: map[string]uint64{}}
		cfg.Timed = rng.Intn(4) == 0
		nAcct := 2 + rng.Intn(4)
		for i := 0; i < nAcct; i++ {
			if rng.Intn(3) == 0 {
				cfg.Ledger[fmt.Sprint(i)] = uint64(rng.Intn(6))
			}
		}
		w.CaseStart(id, map[string]interface{}{"cfg": cfg, "accounts": nAcct})
		guard(w, "pool", func() {
			concAccts := 0
			if prop == "C19" && id%8 == 3 {
				concAccts = nAcct
			}
			pr := newPoolRunConc(prop, cfg, concAccts)
			pr.timing = prop == "C19" && id%40 == 7
			ts := int64(5000)
			known := map[string]string{}
			for s := 0; s < steps; s++ {
				op := pr.gen(rng, nAcct, &ts, known)
				if op.Note != "" {
					pr.shape[op.Note] = true
				}
				pr.apply(op)
			}
			pr.apply(poolOp{Op: "drain"})
			if pr.conc != nil {
				verdict, detail, reads, writes := pr.conc.finish()
				pr.stats["concurrent_cases"]++
				pr.stats["obs_concurrent_pending_nonce_reads"] += reads
				pr.stats["obs_driver_calls_in_concurrent_histories"] += writes / int64(nAcct)
				pr.shape["concurrent-readers"] = true
				switch verdict {
				case "illegal":
					pr.violation("pending-nonce:concurrent-reads-not-linearizable", detail)
				case "unknown":
					pr.stats["obs_linearizability_check_timed_out"]++
				default:
					pr.stats["linearizable_histories"]++
				}
			}
			for k, v := range pr.stats {
				w.Count(k, v)
			}
			seen := map[string]bool{}
			for _, v := range pr.viols {
				if seen[v.sig] {
					continue
				}
				seen[v.sig] = true
				wit := map[string]interface{}{"cfg": cfg, "ops": pr.ops}
				if !shrunk[v.sig] { // shrink the first witness of each signature per worker
					shrunk[v.sig] = true
					small := shrinkPool(prop, cfg, pr.ops, v.sig)
					wit = map[string]interface{}{"cfg": cfg, "ops": small, "shrunk_from": len(pr.ops)}
					if d, ok := replayPool(prop, cfg, small)[v.sig]; ok {
						v.detail = d
					}
				}
				w.Violation(v.sig, v.detail, wit)
			}
			var sh []string
			for k := range pr.shape {
				sh = append(sh, k)
			}
			sortStrings(sh)
			if id == a.From {
				n := len(pr.ops)
				if n > 25 {
					n = 25
				}
				w.Sample(map[string]interface{}{"case": id, "cfg": cfg, "accounts": nAcct, "first_ops": pr.ops[:n]})
			}
			w.CaseDone(fmt.Sprintf("b%d|a%d|timed%v|%s", cfg.BatchSize, nAcct, cfg.Timed, strings.Join(sh, ",")), len(sh) > 0)
		})
	}
	w.End()
	return 0
}
