package main

import "math/big"

type bigInt = big.Int

func newBig(v int64) *big.Int { return big.NewInt(v) }
