package main

import (
	"fmt"
	"io/ioutil"
	"os"

	"github.com/meshplus/bitxhub-model/pb"
	"github.com/meshplus/bitxhub/verif/harness"
)

func init() { workloads["smoke"] = smoke }

// smoke is a scratch probe (not part of any check): transfers whose From / To are absent on the wire.
func smoke(args []string) int {
	dir, _ := ioutil.TempDir("", "smoke.")
	defer os.RemoveAll(dir)
	w, err := harness.OpenWorld(dir, harness.Options{})
	if err != nil {
		fmt.Println(err)
		return 1
	}
	defer w.R.Close()
	for _, kind := range []string{"to-nil", "from-nil", "both-nil"} {
		tx := w.Transfer(harness.AdminKey(0), harness.User(1).Addr, "5")
		if kind != "from-nil" {
			tx.To = nil
		}
		if kind != "to-nil" {
			tx.From = nil
		}
		txs := harness.WireRoundTrip([]pb.Transaction{tx})
		bt := txs[0].(*pb.BxhTransaction)
		fmt.Printf("%s: after the wire From=%v To=%v\n", kind, bt.From, bt.To)
		res, err := w.R.ExecBlock(txs, w.TS+1000, nil)
		w.TS += 1000
		if err != nil {
			fmt.Println(kind, "exec error:", err)
			continue
		}
		fmt.Printf("%s: receipt %v %.80s\n", kind, res.Receipts[0].Status, string(res.Receipts[0].Ret))
	}
	return 0
}
