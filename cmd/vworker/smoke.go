package main

import (
	"fmt"
	"io/ioutil"
	"os"
	"path/filepath"

	"github.com/meshplus/bitxhub-model/pb"
	"github.com/meshplus/bitxhub/verif/harness"
)

func init() { workloads["smoke"] = smoke }

func smoke(args []string) int {
	dir, _ := ioutil.TempDir("", "verif.smoke.")
	defer os.RemoveAll(dir)
	w, err := harness.BuildStandard(filepath.Join(dir, "fx"), harness.Options{})
	if err != nil {
		fmt.Println("build:", err)
		return 1
	}
	from := harness.FullID(harness.ChainC, "s2")
	keys := []string{harness.FullID(harness.ChainA, "s1"), harness.FullID(harness.ChainB, "s1")}
	vals := []uint64{1, 1}
	grp := &pb.StringUint64Map{Keys: keys, Vals: vals}
	gid := globalTxID(from, keys, vals)
	send := func(to string, typ pb.IBTP_Type) {
		ib := harness.MkIBTP(from, to, 1, typ, 2)
		ib.Group = grp
		res, _ := w.Exec(w.IBTPTx(harness.User(0), ib, []byte("p")))
		fmt.Printf("h=%d %v->%s: %v %s | global status %d | meta %s\n", res.Height, typ, to, res.Receipts[0].Status, string(res.Receipts[0].Ret), w.Status(gid), canonicalMeta(res.Meta))
	}
	send(keys[0], pb.IBTP_INTERCHAIN)
	send(keys[0], pb.IBTP_RECEIPT_SUCCESS)
	for i := 0; i < 3; i++ {
		res, _ := w.Exec()
		fmt.Printf("h=%d empty | global status %d | meta %s\n", res.Height, w.Status(gid), canonicalMeta(res.Meta))
	}
	w.R.Close()
	return 0
}
