package main

import (
	"fmt"
	"io/ioutil"
	"os"
	"runtime"
	"strings"

	"github.com/meshplus/bitxhub-kit/types"
	"github.com/meshplus/bitxhub-model/pb"
	"github.com/meshplus/bitxhub/verif/harness"
)

func init() { workloads["smoke"] = smoke }

// smoke is a scratch probe (not part of any check): does a value written by an XVM contract stay what it was
// when later calls of the same contract reuse the instance's memory?
func smoke(args []string) int {
	if len(args) > 0 && args[0] == "c07h" {
		return smokeC07h()
	}
	dir, _ := ioutil.TempDir("", "smoke.")
	defer os.RemoveAll(dir)
	w, err := harness.OpenWorld(dir, harness.Options{})
	if err != nil {
		fmt.Println(err)
		return 1
	}
	defer w.R.Close()
	if err := w.BuildStandard(); err != nil {
		fmt.Println(err)
		return 1
	}
	code, err := ioutil.ReadFile("/repo/pkg/vm/wasm/testdata/optimized.wasm")
	if err != nil {
		fmt.Println(err)
		return 1
	}
	k := harness.User(0)
	res, err := w.Exec(harness.XVMDeployTx(k, w.Nonce(k.Addr), w.Stamp(), code))
	if err != nil || res.Receipts[0].Status != pb.Receipt_SUCCESS {
		fmt.Println("deploy:", err, string(res.Receipts[0].Ret))
		return 1
	}
	addr := types.NewAddress(res.Receipts[0].Ret)
	set := func(key, val string) pb.Transaction {
		return harness.XVMInvokeTx(k, w.Nonce(k.Addr), w.Stamp(), addr, "state_test_set", pb.Bytes([]byte(key)), pb.Bytes([]byte(val)))
	}
	res, err = w.Exec(set("alice", "111"), set("bob", "222222"), set("carol", "3"), set("alice2", "4444"))
	if err != nil {
		fmt.Println("exec:", err)
		return 1
	}
	for i, rc := range res.Receipts {
		fmt.Printf("set tx%d: %v %q\n", i, rc.Status, string(rc.Ret))
	}
	for _, key := range []string{"alice", "bob", "carol", "alice2"} {
		res, err := w.Exec(harness.XVMInvokeTx(k, w.Nonce(k.Addr), w.Stamp(), addr, "state_test_get", pb.Bytes([]byte(key))))
		if err != nil {
			fmt.Println("exec:", err)
			return 1
		}
		fmt.Printf("get %s: %v %q\n", key, res.Receipts[0].Status, string(res.Receipts[0].Ret))
	}
	// many writes in one block while the collector runs all the time
	stop := make(chan struct{})
	go func() {
		for {
			select {
			case <-stop:
				return
			default:
				runtime.GC()
			}
		}
	}()
	var txs []pb.Transaction
	for i := 0; i < 300; i++ {
		txs = append(txs, set(fmt.Sprintf("key-%03d", i), fmt.Sprintf("value-%03d-%s", i, strings.Repeat("x", i%17))))
	}
	res, err = w.Exec(txs...)
	close(stop)
	if err != nil {
		fmt.Println("exec:", err)
		return 1
	}
	bad := 0
	dd := w.R.DumpState()
	for i := 0; i < 300; i++ {
		want := fmt.Sprintf("value-%03d-%s", i, strings.Repeat("x", i%17))
		if got := string(dd[string(addr.Bytes())+fmt.Sprintf("key-%03d", i)]); got != want {
			bad++
			if bad < 5 {
				fmt.Printf("key-%03d stored %q, written %q\n", i, got, want)
			}
		}
	}
	fmt.Println("values that differ from what was written:", bad)
	d := w.R.DumpState()
	for _, kk := range harness.SortedKeys(d) {
		if len(kk) > 20 && kk[:20] == string(addr.Bytes()) {
			fmt.Printf("stored %q = %q\n", kk[20:], string(d[kk]))
		}
	}
	return 0
}

func smokeC07h() int {
	dir, _ := ioutil.TempDir("", "smoke.")
	defer os.RemoveAll(dir)
	w, err := harness.OpenWorld(dir, harness.Options{})
	if err != nil {
		fmt.Println(err)
		return 1
	}
	defer w.R.Close()
	if err := w.BuildStandard(); err != nil {
		fmt.Println(err)
		return 1
	}
	tight := harness.DetKey("tight-sender")
	w.Exec(w.Transfer(harness.User(0), tight.Addr, "900000000"))
	has := func() bool {
		_, ok := w.R.DumpState()["account-"+harness.AddrStore.String()]
		return ok
	}
	for name, a := range map[string]*types.Address{"interchain": harness.AddrInterchain, "store": harness.AddrStore, "rule": harness.AddrRule, "role": harness.AddrRole, "appchain": harness.AddrAppchain, "txmgr": harness.AddrTxMgr, "gov": harness.AddrGov, "service": harness.AddrService} {
		_, ok := w.R.DumpState()["account-"+a.String()]
		fmt.Println("account record of", name, ok)
	}
	fmt.Println("store account record before:", has())
	res, err := w.Exec(w.BVM(harness.User(1), harness.AddrStore, "Set", pb.String("k"), pb.String("v")), w.Transfer(tight, harness.AddrStore, "899999000"))
	if err != nil {
		fmt.Println(err)
		return 1
	}
	for i, rc := range res.Receipts {
		fmt.Printf("tx%d %v %.60s\n", i, rc.Status, string(rc.Ret))
	}
	fmt.Println("store account record after:", has())
	return 0
}
