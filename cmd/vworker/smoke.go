package main

import (
	"fmt"
	"io/ioutil"
	"os"
	"path/filepath"
	"time"

	"github.com/meshplus/bitxhub-model/pb"
	"github.com/meshplus/bitxhub/verif/harness"
)

func init() { workloads["smoke"] = smoke }

func smoke(args []string) int {
	dir, _ := ioutil.TempDir("", "verif.smoke.")
	defer os.RemoveAll(dir)
	t0 := time.Now()
	w, err := harness.BuildStandard(filepath.Join(dir, "fx"), harness.Options{})
	if err != nil {
		fmt.Println("build:", err)
		return 1
	}
	fmt.Println("fixture height", w.R.Height(), time.Since(t0))
	ka := harness.ChainAdmin("chainW")
	addr, err := w.DeployRule(ka, "firstbyte")
	fmt.Println("rule", addr, err)
	err = w.RegisterAppchain(ka, "chainW", "ETH", addr, nil)
	fmt.Println("register chainW:", err)
	err = w.RegisterService(ka, "chainW", "s1", true, "")
	fmt.Println("register svc:", err)
	from, to := harness.FullID("chainW", "s1"), harness.FullID(harness.ChainB, "s1")
	pier := harness.User(0)
	res, err := w.Exec(w.IBTPTx(pier, harness.MkIBTP(from, to, 1, pb.IBTP_INTERCHAIN, 3), []byte{1, 2, 3}))
	if err != nil {
		fmt.Println(err)
		return 1
	}
	fmt.Println("request good proof:", res.Receipts[0].Status, string(res.Receipts[0].Ret))
	if len(args) > 0 {
		res, err = w.Exec(w.IBTPTx(pier, harness.MkIBTP(from, to, 2, pb.IBTP_INTERCHAIN, 3), []byte{0, 2, 3}))
		if err != nil {
			fmt.Println(err)
			return 1
		}
		fmt.Println("request bad proof:", res.Receipts[0].Status, string(res.Receipts[0].Ret))
	}
	for _, m := range w.R.Surface() {
		if m.CName == "Store" {
			fmt.Println(m.CName, m.Name, m.In, m.Variadic, m.NumOut)
		}
	}
	fmt.Println("surface size", len(w.R.Surface()))
	w.R.Close()
	return 0
}
