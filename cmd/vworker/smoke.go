package main

import (
	"fmt"
	"io/ioutil"
	"os"
	"time"

	"github.com/meshplus/bitxhub-model/constant"
	"github.com/meshplus/bitxhub-model/pb"
	"github.com/meshplus/bitxhub/verif/harness"
)

func init() { workloads["smoke"] = smoke }

func smoke(args []string) int {
	dir, _ := ioutil.TempDir("", "verif.smoke.")
	defer os.RemoveAll(dir)
	t0 := time.Now()
	r, err := harness.Open(dir, harness.Options{})
	if err != nil {
		fmt.Println("open:", err)
		return 1
	}
	fmt.Println("opened height", r.Height(), time.Since(t0))
	n := harness.Nonces{}
	a0 := harness.AdminKey(0)
	u := harness.DetKey("user-1")
	tx := harness.TransferTx(a0, n.Next(a0.Addr), 1, u.Addr, "15000000000")
	res, err := r.ExecBlock([]pb.Transaction{tx}, 100, nil)
	if err != nil {
		fmt.Println("exec:", err)
		return 1
	}
	fmt.Println("block", res.Height, res.Block.BlockHash.String(), "receipt", res.Receipts[0].Status, string(res.Receipts[0].Ret), time.Since(t0))
	st := constant.StoreContractAddr.Address()
	t1 := harness.BVMTx(u, n.Next(u.Addr), 2, st, "Set", pb.String("k"), pb.String("v1"))
	t2 := harness.BVMTx(u, n.Next(u.Addr), 3, st, "Set", pb.String("k"), pb.String("v2"))
	res, err = r.ExecBlock([]pb.Transaction{t1, t2}, 200, nil)
	if err != nil {
		fmt.Println("exec:", err)
		return 1
	}
	for _, rc := range res.Receipts {
		fmt.Println(" receipt", rc.Status, string(rc.Ret))
	}
	q := r.Query(st, "Get", pb.String("k"))
	fmt.Println("Store.Get(k) =", q.Status, string(q.Ret))
	r.Close()
	return 0
}
