package main

import (
	"fmt"
	"io/ioutil"
	"os"
	"path/filepath"

	"github.com/meshplus/bitxhub-model/pb"
	"github.com/meshplus/bitxhub/verif/harness"
)

func init() { workloads["smoke"] = smoke }

// smoke: does a SERVICE event of a transaction that fails at fee payment poison the service cache?
func smoke(args []string) int {
	dir, _ := ioutil.TempDir("", "verif.smoke.")
	defer os.RemoveAll(dir)
	w, err := harness.BuildStandard(filepath.Join(dir, "fx"), harness.Options{})
	if err != nil {
		fmt.Println("build:", err)
		return 1
	}
	ca := harness.ChainAdmin(harness.ChainA)
	// drain the chain admin: leave less than one BVM fee
	bal := w.R.ViewL.GetBalance(ca.Addr)
	w.R.ViewL.Clear()
	fmt.Println("admin balance", bal)
	keep := int64(5000000000)
	amt := bal.String()
	_ = keep
	// transfer everything but 1.2e10 (transfer fee 1.05e9 is paid on top)
	var a, b, c = bal, bal, bal
	_, _, _ = a, b, c
	rest := "999999999968450000000" // 1e21 - fees paid so far is unknown: compute below
	_ = rest
	_ = amt
	left := int64(10000000000)
	x := new(bigInt).Sub(bal, newBig(left))
	res, _ := w.Exec(w.Transfer(ca, harness.User(0).Addr, x.String()))
	fmt.Println("drain:", res.Receipts[0].Status, string(res.Receipts[0].Ret))
	bal2 := w.R.ViewL.GetBalance(ca.Addr)
	w.R.ViewL.Clear()
	fmt.Println("admin balance now", bal2)
	svc := harness.ChainA + ":s1"
	res, _ = w.Exec(w.BVM(ca, harness.AddrService, "UpdateService", pb.String(svc), pb.String("newname"), pb.String("intro2"), pb.String(""), pb.String("d"), pb.String("r")),
		w.BVM(ca, harness.AddrService, "UpdateService", pb.String(svc), pb.String("newname2"), pb.String("intro2"), pb.String(""), pb.String("d"), pb.String("r")))
	for _, rc := range res.Receipts {
		fmt.Println("update:", rc.Status, string(rc.Ret))
	}
	q := w.R.Query(harness.AddrService, "GetServiceInfo", pb.String(svc))
	fmt.Println("ledger service:", string(q.Ret)[:160])
	from, to := harness.FullID(harness.ChainA, "s1"), harness.FullID(harness.ChainB, "s1")
	res, _ = w.Exec(w.IBTPTx(harness.User(1), harness.MkIBTP(from, to, 1, pb.IBTP_INTERCHAIN, 0), []byte("p")))
	fmt.Println("ibtp on running node:", res.Receipts[0].Status, string(res.Receipts[0].Ret))
	w.R.Close()
	return 0
}
