package main

import (
	"fmt"
	"io/ioutil"
	"os"
)

func init() { workloads["smoke"] = smoke }

// smoke is a scratch probe (not part of any check).
func smoke(args []string) int {
	dir, _ := ioutil.TempDir("", "smoke.")
	defer os.RemoveAll(dir)
	kr := &kvRun{prop: "C13", dir: dir}
	if err := kr.open(); err != nil {
		fmt.Println(err)
		return 1
	}
	addr := kvAddr(0)
	show := func(tag string) {
		ok, v := kr.sl.GetState(addr, []byte("k"))
		ok2, q := kr.sl.QueryByPrefix(addr, "")
		fmt.Printf("%-28s GetState=(%v,%q nil=%v) Query=(%v,%q)\n", tag, ok, v, v == nil, ok2, q)
	}
	commit := func(h uint64) {
		kr.sl.Finalise(true)
		a, r := kr.sl.FlushDirtyData()
		if err := kr.sl.Commit(h, a, r); err != nil {
			fmt.Println("commit", err)
		}
	}
	kr.sl.SetState(addr, []byte("k"), []byte("v1"), nil)
	kr.sl.SetState(addr, []byte("j"), []byte("w1"), nil)
	commit(1)
	show("after block 1")
	kr.sl.SetState(addr, []byte("k"), []byte{}, nil)
	show("empty written, in block")
	commit(2)
	show("after block 2 (running)")
	kr.sl.Close()
	kr.ldb.Close()
	kr.open()
	show("after reopen")
	kr.sl.SetState(addr, []byte("k"), nil, nil)
	commit(3)
	show("deleted, block 3")
	kr.sl.Close()
	kr.ldb.Close()
	kr.open()
	show("deleted, after reopen")
	return 0
}
