package main

import (
	"fmt"
	"io/ioutil"
	"os"

	"github.com/meshplus/bitxhub-model/pb"
	"github.com/meshplus/bitxhub/verif/harness"
	"github.com/meshplus/bitxhub/verif/model"
)

func init() { workloads["smoke"] = smoke }

// smoke is a scratch probe (not part of any check): service ids containing the separators of the timeout list.
func smoke(args []string) int {
	dir, _ := ioutil.TempDir("", "smoke.")
	defer os.RemoveAll(dir)
	if err := buildHubFixture(dir, harness.Options{}); err != nil {
		fmt.Println(err)
		return 1
	}
	w, err := harness.OpenWorld(dir, harness.Options{})
	if err != nil {
		fmt.Println(err)
		return 1
	}
	defer w.R.Close()
	for _, svc := range []string{"s-x", "s,x"} {
		err := w.RegisterService(harness.ChainAdmin(harness.ChainA), harness.ChainA, svc, true, "")
		fmt.Printf("RegisterService chainA:%s: %v\n", svc, err)
	}
	odd := hubID + ":chainX:mint,burn,swap"
	if len(args) > 0 {
		odd = args[0]
	}
	a1, b1, c1 := harness.FullID(harness.ChainA, "s1"), harness.FullID(harness.ChainB, "s1"), harness.FullID(harness.ChainC, "s1")
	res, err := w.Exec(w.IBTPTx(harness.User(0), harness.MkIBTP(a1, odd, 1, pb.IBTP_INTERCHAIN, 2), []byte("p")),
		w.IBTPTx(harness.User(0), harness.MkIBTP(b1, c1, 1, pb.IBTP_INTERCHAIN, 2), []byte("p")))
	if err != nil {
		fmt.Println("exec:", err)
		return 1
	}
	for i, rc := range res.Receipts {
		fmt.Printf("h%d tx%d: %v %.100s\n", res.Height, i, rc.Status, string(rc.Ret))
	}
	for k := 0; k < 3; k++ {
		res, err := w.Exec(w.Transfer(harness.User(1), harness.User(2).Addr, "1"))
		if err != nil {
			fmt.Println("exec:", err)
			return 1
		}
		fmt.Printf("h%d timeout notifications %v; status odd=%s normal=%s\n", res.Height, res.Meta.TimeoutCounter, model.StName[w.Status(a1+"-"+odd+"-1")], model.StName[w.Status(b1+"-"+c1+"-1")])
	}
	// a group whose source service id contains '-'
	src := harness.FullID(harness.ChainA, "s-x")
	keys := []string{b1, c1}
	vals := []uint64{1, 1}
	var txs []pb.Transaction
	for i := range keys {
		ib := harness.MkIBTP(src, keys[i], 1, pb.IBTP_INTERCHAIN, 2)
		ib.Group = &pb.StringUint64Map{Keys: keys, Vals: vals}
		txs = append(txs, w.IBTPTx(harness.User(0), ib, []byte("p")))
	}
	txs = append(txs, w.IBTPTx(harness.User(0), harness.MkIBTP(b1, c1, 2, pb.IBTP_INTERCHAIN, 2), []byte("p")))
	res, err = w.Exec(txs...)
	if err != nil {
		fmt.Println("exec:", err)
		return 1
	}
	for i, rc := range res.Receipts {
		fmt.Printf("h%d tx%d: %v %.100s\n", res.Height, i, rc.Status, string(rc.Ret))
	}
	// one child succeeds
	res, err = w.Exec(w.IBTPTx(harness.User(0), func() *pb.IBTP {
		ib := harness.MkIBTP(src, b1, 1, pb.IBTP_RECEIPT_SUCCESS, 0)
		ib.Group = &pb.StringUint64Map{Keys: keys, Vals: vals}
		return ib
	}(), []byte("p")))
	if err == nil {
		fmt.Printf("h%d receipt: %v %.100s; notifications %v\n", res.Height, res.Receipts[0].Status, string(res.Receipts[0].Ret), res.Meta.TimeoutCounter)
	}
	for k := 0; k < 2; k++ {
		res, err := w.Exec(w.Transfer(harness.User(1), harness.User(2).Addr, "1"))
		if err != nil {
			fmt.Println("exec:", err)
			return 1
		}
		fmt.Printf("h%d timeout notifications %v; multi %v; status child=%s normal=%s\n", res.Height, res.Meta.TimeoutCounter, res.Meta.MultiTxCounter, model.StName[w.Status(src+"-"+b1+"-1")], model.StName[w.Status(b1+"-"+c1+"-2")])
	}
	return 0
}
