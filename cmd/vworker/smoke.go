package main

import (
	"fmt"
	"io/ioutil"
	"os"

	"github.com/meshplus/bitxhub-model/pb"
	"github.com/meshplus/bitxhub/verif/harness"
	"github.com/meshplus/bitxhub/verif/model"
)

func init() { workloads["smoke"] = smoke }

// smoke is a scratch probe (not part of any check): service ids containing the separators of the timeout list.
func smoke(args []string) int {
	dir, _ := ioutil.TempDir("", "smoke.")
	defer os.RemoveAll(dir)
	if err := buildHubFixture(dir, harness.Options{}); err != nil {
		fmt.Println(err)
		return 1
	}
	w, err := harness.OpenWorld(dir, harness.Options{})
	if err != nil {
		fmt.Println(err)
		return 1
	}
	defer w.R.Close()
	for _, svc := range []string{"s-x", "s,x"} {
		err := w.RegisterService(harness.ChainAdmin(harness.ChainA), harness.ChainA, svc, true, "")
		fmt.Printf("RegisterService chainA:%s: %v\n", svc, err)
	}
	odd := hubID + ":chainX:mint,burn,swap"
	if len(args) > 0 {
		odd = args[0]
	}
	a1, b1, c1 := harness.FullID(harness.ChainA, "s1"), harness.FullID(harness.ChainB, "s1"), harness.FullID(harness.ChainC, "s1")
	res, err := w.Exec(w.IBTPTx(harness.User(0), harness.MkIBTP(a1, odd, 1, pb.IBTP_INTERCHAIN, 2), []byte("p")),
		w.IBTPTx(harness.User(0), harness.MkIBTP(b1, c1, 1, pb.IBTP_INTERCHAIN, 2), []byte("p")))
	if err != nil {
		fmt.Println("exec:", err)
		return 1
	}
	for i, rc := range res.Receipts {
		fmt.Printf("h%d tx%d: %v %.100s\n", res.Height, i, rc.Status, string(rc.Ret))
	}
	for k := 0; k < 3; k++ {
		res, err := w.Exec(w.Transfer(harness.User(1), harness.User(2).Addr, "1"))
		if err != nil {
			fmt.Println("exec:", err)
			return 1
		}
		fmt.Printf("h%d timeout notifications %v; status odd=%s normal=%s\n", res.Height, res.Meta.TimeoutCounter, model.StName[w.Status(a1+"-"+odd+"-1")], model.StName[w.Status(b1+"-"+c1+"-1")])
	}
	return 0
}
