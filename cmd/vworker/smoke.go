package main

import (
	"fmt"
	"io/ioutil"
	"os"
	"path/filepath"

	"github.com/meshplus/bitxhub-model/pb"
	"github.com/meshplus/bitxhub/verif/harness"
)

func init() { workloads["smoke"] = smoke }

func smoke(args []string) int {
	dir, _ := ioutil.TempDir("", "verif.smoke.")
	defer os.RemoveAll(dir)
	w, err := harness.BuildStandard(filepath.Join(dir, "fx"), harness.Options{})
	if err != nil {
		fmt.Println("build:", err)
		return 1
	}
	from, to := harness.FullID(harness.ChainA, "s1"), harness.FullID(harness.ChainB, "s1")
	ib := harness.MkIBTP(from, to, 1, pb.IBTP_INTERCHAIN, 0)
	raw, _ := ib.Marshal()
	k := harness.User(3)
	rc, _ := w.Call(k, harness.AddrInterchain, "HandleIBTPData", pb.Bytes(raw))
	fmt.Println("HandleIBTPData:", rc.Status, string(rc.Ret))
	fmt.Println("victim counters:", w.Interchain(from))
	rc, _ = w.Call(k, harness.AddrBroker, "EmitInterchain", pb.String(from), pb.String(to), pb.String("f,cb,rb"), pb.String("x"), pb.String("y"), pb.String("z"))
	fmt.Println("EmitInterchain:", rc.Status, string(rc.Ret))
	fmt.Println("victim counters:", w.Interchain(from))
	rc, _ = w.Call(k, harness.AddrInterchain, "DeleteInterchain", pb.String(from))
	fmt.Println("DeleteInterchain:", rc.Status, string(rc.Ret))
	fmt.Println("victim counters:", w.Interchain(from))
	w.R.Close()
	return 0
}
