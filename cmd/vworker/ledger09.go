package main

import (
	"fmt"
	"math/big"
	"os"
	"path/filepath"
	"sort"
	"strings"

	"github.com/meshplus/bitxhub-kit/types"
	"github.com/meshplus/bitxhub-model/pb"
	"github.com/meshplus/bitxhub/internal/ledger"
	"github.com/meshplus/bitxhub/verif/harness"
	"github.com/meshplus/bitxhub/verif/vlog"
)

// ledger09Case drives the ledger's own interface (the one the executor uses: PersistBlockData, Rollback)
// with synthetic blocks, so that shapes the executor does not produce today are covered too: delivery
// entries marked invalid, several chains per block, empty blocks, many rollbacks in a row. The same audit
// as in the executor-driven cases decides: hash links, recomputed roots, every index, chain meta (height,
// head hash, cumulative interchain count), and nothing of a removed height answers any lookup.
func ledger09Case(w *vlog.W, a *wargs, id int) {
	rng := vlog.CaseRand(a.Seed, "ledger09", id)
	opts := harness.Options{NoAudit: rng.Intn(2) == 0}
	w.CaseStart(id, map[string]interface{}{"opts": opts, "kind": "ledger-interface"})
	guard(w, "ledger09", func() {
		dir := filepath.Join(a.Work, fmt.Sprintf("ledger09-%d", id))
		os.RemoveAll(dir)
		defer os.RemoveAll(dir)
		world, err := harness.OpenWorld(dir, opts) // genesis only
		if err != nil {
			w.Inconclusive(err.Error())
			w.CaseDone("fixture-error", false)
			return
		}
		defer func() { world.R.Close() }()
		seen := map[string]bool{}
		viol := func(sig, detail string) {
			if seen[sig] {
				return
			}
			seen[sig] = true
			w.Violation(sig, detail, map[string]interface{}{"opts": opts})
		}
		l := world.R.L
		recs := map[uint64]*harness.ExecRecord{}
		var removedLog []harness.Removed
		shape := map[string]bool{}
		nonce := uint64(1 << 40)
		maxEver := l.GetChainMeta().Height
		persist := func() {
			meta := l.GetChainMeta()
			h := meta.Height + 1
			n := rng.Intn(5)
			if rng.Intn(6) == 0 {
				n = 0
				shape["empty-block"] = true
			}
			var txs []pb.Transaction
			var receipts []*pb.Receipt
			var txh, rch, hl []*types.Hash
			for i := 0; i < n; i++ {
				nonce++
				tx := harness.TransferTx(harness.User(rng.Intn(3)), nonce, int64(nonce), harness.User(3).Addr, fmt.Sprint(1+rng.Intn(9)))
				rc := &pb.Receipt{TxHash: tx.GetHash(), Ret: []byte(fmt.Sprintf("ret-%d", nonce)), Status: []pb.Receipt_Status{pb.Receipt_SUCCESS, pb.Receipt_FAILED}[rng.Intn(2)]}
				txs, receipts = append(txs, tx), append(receipts, rc)
				txh, rch, hl = append(txh, tx.GetHash()), append(rch, rc.Hash()), append(hl, tx.GetHash())
			}
			im := &pb.InterchainMeta{Counter: map[string]*pb.VerifiedIndexSlice{}}
			for _, c := range []string{harness.ChainA, harness.ChainB, "1356"} {
				if n == 0 || rng.Intn(2) == 0 {
					continue
				}
				sl := &pb.VerifiedIndexSlice{}
				for k := 0; k < 1+rng.Intn(3); k++ {
					valid := rng.Intn(3) != 0
					if !valid {
						shape["invalid-delivery-entry"] = true
					}
					sl.Slice = append(sl.Slice, &pb.VerifiedIndex{Index: uint64(rng.Intn(n)), Valid: valid, IsBatch: rng.Intn(4) == 0})
				}
				im.Counter[c] = sl
			}
			// a state change, so that the state journal of the height is not empty
			l.SetBalance(harness.DetKey(fmt.Sprintf("ledger09-acct-%d", rng.Intn(3))).Addr, big.NewInt(int64(nonce)))
			accounts, stateRoot := l.FlushDirtyData()
			txRoot, _ := harness.MerkleRoot(txh)
			rcRoot, _ := harness.MerkleRoot(rch)
			blk := &pb.Block{BlockHeader: &pb.BlockHeader{Version: []byte("1.0.0"), Number: h, Timestamp: int64(h) * 1000, ParentHash: meta.BlockHash, StateRoot: stateRoot, TxRoot: txRoot, ReceiptRoot: rcRoot},
				Transactions: &pb.Transactions{Transactions: txs}}
			blk.BlockHash = blk.BlockHeader.Hash()
			l.PersistBlockData(&ledger.BlockData{Block: blk, Receipts: receipts, Accounts: accounts, InterchainMeta: im, TxHashList: hl})
			er := &harness.ExecRecord{Height: h, Hash: blk.BlockHash.String()}
			for _, t := range txh {
				er.TxHashes = append(er.TxHashes, t.String())
			}
			recs[h] = er
			if h > maxEver {
				maxEver = h
			}
			w.Count("ledger_blocks_persisted", 1)
		}
		audit := func(ctx string) {
			fs, nb, nl := world.R.AuditChain(recs)
			w.Count("audited_blocks", int64(nb))
			w.Count("audited_lookups", int64(nl))
			for _, f := range fs {
				viol(f.Sig, ctx+": "+f.Detail)
			}
			still := map[string]bool{}
			meta := l.GetChainMeta()
			for h := uint64(1); h <= meta.Height; h++ {
				if r := recs[h]; r != nil {
					still[r.Hash] = true
					for _, t := range r.TxHashes {
						still[t] = true
					}
				}
			}
			fs2, nl2 := world.R.AuditRemoved(removedLog, still)
			w.Count("audited_lookups", int64(nl2))
			for _, f := range fs2 {
				viol(f.Sig, ctx+": "+f.Detail)
			}
		}
		for step := 0; step < 40; step++ {
			switch x := rng.Intn(10); {
			case x < 7:
				persist()
			default:
				meta := l.GetChainMeta()
				if meta.Height < 3 {
					persist()
					continue
				}
				back := 1 + rng.Intn(3)
				if rng.Intn(5) == 0 {
					back = 1 + rng.Intn(8)
				}
				t := meta.Height - uint64(back)
				if int64(t) < 1 || meta.Height-t > 9 {
					continue
				}
				// what is about to be removed
				for h := t + 1; h <= meta.Height; h++ {
					if r := recs[h]; r != nil {
						rm := harness.Removed{Height: h, BlockHash: types.NewHashByStr(r.Hash)}
						for _, th := range r.TxHashes {
							rm.TxHashes = append(rm.TxHashes, types.NewHashByStr(th))
						}
						removedLog = append(removedLog, rm)
					}
				}
				if err := l.Rollback(t); err != nil {
					// journals older than (highest height ever committed - 9) are pruned: a target below that is refused
					if strings.Contains(err.Error(), "journal") || (maxEver > 9 && t < maxEver-9) {
						w.Count("rollbacks_refused_outside_window", 1)
						continue
					}
					viol("rollback:error", fmt.Sprintf("Rollback(%d) at height %d: %v", t, meta.Height, err))
					return
				}
				for h := t + 1; h <= meta.Height; h++ {
					delete(recs, h)
				}
				shape[fmt.Sprintf("rollback-depth%d", min(back, 4))] = true
				w.Count("ledger_rollbacks", 1)
				audit(fmt.Sprintf("after Rollback(%d) from %d", t, meta.Height))
			}
			if step%8 == 7 {
				audit(fmt.Sprintf("after step %d", step))
			}
		}
		audit("at the end")
		var sh []string
		for k := range shape {
			sh = append(sh, k)
		}
		sort.Strings(sh)
		w.CaseDone("ledger-interface|"+strings.Join(sh, ","), true)
	})
}
