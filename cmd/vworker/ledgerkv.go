package main

import (
	"bytes"
	"fmt"
	"io/ioutil"
	"math/big"
	"math/rand"
	"os"
	"path/filepath"
	"sort"
	"strings"

	"github.com/meshplus/bitxhub-kit/storage"
	"github.com/meshplus/bitxhub-kit/storage/leveldb"
	"github.com/meshplus/bitxhub-kit/types"
	"github.com/meshplus/bitxhub/internal/ledger"
	"github.com/meshplus/bitxhub/internal/repo"
	"github.com/meshplus/bitxhub/verif/model"
	"github.com/meshplus/bitxhub/verif/vlog"
	ledger2 "github.com/meshplus/eth-kit/ledger"
	"github.com/sirupsen/logrus"
)

func init() {
	workloads["kv13"] = func(a []string) int { return kvWorkload("C13", a) }
	workloads["kv12"] = func(a []string) int { return kvWorkload("C12", a) }
}

// kvOp is one concrete, replayable call on the state ledger.
type kvOp struct {
	Op   string `json:"op"`
	A    int    `json:"a,omitempty"`
	K    string `json:"k,omitempty"`
	V    string `json:"v,omitempty"` // "<nil>" = delete, "" = empty
	N    int64  `json:"n,omitempty"`
	Note string `json:"note,omitempty"`
}

type kvCfg struct {
	Cache [3]int `json:"cache"` // 0 = default sizes
}

// keys are bytes, not text: "\xff\x01" is not valid UTF-8 (EVM storage slots are 32 binary bytes)
// "cafe" and "00ff" are readable keys that are also valid hex strings (the journal hex-encodes its keys)
var kvKeys = []string{"a", "ab", "abc", "b", "ba", "", "c", "\xff\x01", "\xff", "cafe", "00ff"}
var kvPrefixes = []string{"", "a", "ab", "b", "c", "zz", "\xff", "ca", "0"}

func kvAddr(i int) *types.Address {
	return types.NewAddress([]byte(fmt.Sprintf("kv-account-%02d........", i))[:20])
}

func kvVal(s string) []byte {
	if s == "<nil>" {
		return nil
	}
	return []byte(s)
}

func quietLogger() *logrus.Logger {
	lg := logrus.New()
	lg.SetOutput(ioutil.Discard)
	lg.SetLevel(logrus.PanicLevel)
	return lg
}

type kvRun struct {
	forceMain bool
	hotA      int
	hotK      string
	hotSet    bool
	prop      string
	cfg       kvCfg
	dir       string
	ldb       storage.Storage
	sl        ledger2.StateLedger
	view      ledger2.StateLedger
	m         *model.KV
	h         uint64
	snaps     []int // ledger snapshot ids, parallel to model snapshot indexes
	viols     []poolViol
	stats     map[string]int64
	shape     map[string]bool
	ops       []kvOp
	rng       *rand.Rand // only for which subset of reads to perform
	byH       map[uint64]*model.KV
	rootAt    map[uint64]string
	blkOps    map[uint64][]kvOp // ops of the block that produced height h
	curOps    []kvOp
	// (addr|key) committed keys whose latest write in some block after height h was a
	// non-journaled Add over an existing value: lastAddOver[key] = heights where that happened
	addOver map[string][]uint64
	minH    uint64
	readsAt map[uint64]map[string]string // (C12) height -> what the store read right after that commit
	queue   []kvOp                       // generator only: rest of a pattern being emitted
}

func (kr *kvRun) violation(sig, detail string) { kr.viols = append(kr.viols, poolViol{sig, detail}) }

func (kr *kvRun) open() error {
	ldb, err := leveldb.New(filepath.Join(kr.dir, "st"))
	if err != nil {
		return err
	}
	var ac *ledger.AccountCache
	if kr.cfg.Cache[0] != 0 {
		ac, err = ledger.NewAccountCacheSized(kr.cfg.Cache[0], kr.cfg.Cache[1], kr.cfg.Cache[2])
		if err != nil {
			return err
		}
	}
	sl, err := ledger.NewSimpleLedger(&repo.Repo{}, ldb, ac, quietLogger())
	if err != nil {
		return err
	}
	kr.ldb, kr.sl = ldb, sl
	// C12 observes through a separate read-only ledger over the same store, as the node's view
	// executor does: monitor reads must not become part of the history being re-executed
	kr.view, err = ledger.NewSimpleLedger(&repo.Repo{}, ldb, nil, quietLogger())
	return err
}

func eqVal(a, b []byte) bool {
	if (a == nil) != (b == nil) {
		return false
	}
	return bytes.Equal(a, b)
}

func show(v []byte) string {
	if v == nil {
		return "<absent>"
	}
	return fmt.Sprintf("%q", string(v))
}

// check compares getters with the model; full=false checks a random subset so that the
// dirty -> origin -> cache -> db read paths are all taken over time.
func (kr *kvRun) check(full bool, ctx string) {
	rd := kr.sl
	if kr.prop == "C12" && !kr.forceMain {
		rd = kr.view
		rd.Clear()
	}
	for a := 0; a < 3; a++ {
		addr := kvAddr(a)
		as := fmt.Sprint(a)
		if full || kr.rng.Intn(3) == 0 {
			ma := kr.m.Accts[as]
			wantB, wantN := new(big.Int), uint64(0)
			var wantC []byte
			if ma != nil {
				wantB, wantN, wantC = ma.Balance, ma.Nonce, ma.Code
			}
			if got := rd.GetBalance(addr); got.Cmp(wantB) != 0 {
				kr.violation("read:balance", fmt.Sprintf("%s: account %d balance read %v, latest write %v", ctx, a, got, wantB))
			}
			if got := rd.GetNonce(addr); got != wantN {
				kr.violation("read:nonce", fmt.Sprintf("%s: account %d nonce read %d, latest write %d", ctx, a, got, wantN))
			}
			if got := rd.GetCode(addr); !bytes.Equal(got, wantC) {
				kr.violation("read:code", fmt.Sprintf("%s: account %d code read %q, latest write %q", ctx, a, got, wantC))
			}
			kr.stats["obs_account_reads"]++
		}
		for _, k := range kvKeys {
			if !full && kr.rng.Intn(5) < 3 {
				continue
			}
			want, known := kr.m.Get(as, k)
			ok, got := rd.GetState(addr, []byte(k))
			kr.stats["obs_state_reads"]++
			if !known {
				kr.stats["obs_reads_skipped_nonjournaled"]++
				continue
			}
			if !ok {
				got = nil
			}
			if len(got) == 0 && len(want) == 0 {
				// "present and empty" cannot be told from "absent" once a value went through leveldb;
				// counted, not judged
				if (got == nil) != (want == nil) {
					kr.stats["obs_empty_vs_absent"]++
				}
				continue
			}
			if !bytes.Equal(got, want) {
				kr.violation("read:state", fmt.Sprintf("%s: account %d key %q read %s, latest write %s", ctx, a, k, show(got), show(want)))
			}
		}
		for _, p := range kvPrefixes {
			if !full && kr.rng.Intn(4) != 0 {
				continue
			}
			want, det := kr.m.Query(as, p)
			if !det {
				continue
			}
			// empty values cannot be told from absent ones once they went through leveldb: compare non-empty ones
			ok, got := rd.QueryByPrefix(addr, p)
			kr.stats["obs_prefix_queries"]++
			if !ok {
				got = nil
			}
			w := nonEmpty(want)
			g := nonEmpty(got)
			if len(w) != len(g) {
				kr.violation("query:prefix", fmt.Sprintf("%s: account %d prefix %q returned %s, live values are %s", ctx, a, p, showList(got), showList(want)))
				continue
			}
			for i := range w {
				if !bytes.Equal(w[i], g[i]) {
					kr.violation("query:prefix", fmt.Sprintf("%s: account %d prefix %q returned %s, live values are %s", ctx, a, p, showList(got), showList(want)))
					break
				}
			}
		}
	}
}

// recordReads (C12): what a cache-less ledger over the store reads, found-flag included, for every key
// and account field right after the commit of the current height - the statement's "what it was when that
// block was committed", taken from the implementation itself and therefore independent of how it
// represents empty values.
func (kr *kvRun) recordReads() {
	if kr.prop != "C12" {
		return
	}
	if kr.readsAt == nil {
		kr.readsAt = map[uint64]map[string]string{}
	}
	kr.readsAt[kr.h] = kr.readAll()
	delete(kr.readsAt, kr.h-12)
}

func (kr *kvRun) readAll() map[string]string {
	kr.view.Clear()
	out := map[string]string{}
	for a := 0; a < 3; a++ {
		addr := kvAddr(a)
		for _, k := range kvKeys {
			ok, v := kr.view.GetState(addr, []byte(k))
			out[fmt.Sprintf("account %d key %q", a, k)] = fmt.Sprintf("(%v,%s)", ok, show(v))
		}
		out[fmt.Sprintf("account %d balance", a)] = kr.view.GetBalance(addr).String()
		out[fmt.Sprintf("account %d nonce", a)] = fmt.Sprint(kr.view.GetNonce(addr))
		out[fmt.Sprintf("account %d code", a)] = show(kr.view.GetCode(addr))
	}
	kr.view.Clear()
	return out
}

// compareReads (C12): after a rollback to t every read gives what it gave when block t was committed.
func (kr *kvRun) compareReads(from, t uint64) {
	want, ok := kr.readsAt[t]
	if !ok {
		return
	}
	got := kr.readAll()
	kr.stats["obs_rollback_read_comparisons"] += int64(len(got))
	var ks []string
	for k := range want {
		ks = append(ks, k)
	}
	sort.Strings(ks)
	for _, k := range ks {
		if got[k] != want[k] {
			kr.violation("rollback:read-differs-from-commit-time", fmt.Sprintf("after rollback %d->%d %s reads %s, right after the commit of block %d it read %s", from, t, k, got[k], t, want[k]))
			return
		}
	}
}

// cacheVsStore: right after a commit nothing is dirty, so what the running ledger answers (from its
// account cache) and what a cache-less ledger over the same store answers must be the same thing,
// found-flag included - "no matter whether that value currently lives in the cache or the database".
// This does not depend on how the implementation represents empty values.
func (kr *kvRun) cacheVsStore(ctx string) {
	kr.view.Clear()
	for a := 0; a < 3; a++ {
		addr := kvAddr(a)
		for _, k := range kvKeys {
			ok1, v1 := kr.sl.GetState(addr, []byte(k))
			ok2, v2 := kr.view.GetState(addr, []byte(k))
			kr.stats["obs_cache_vs_store_reads"]++
			if ok1 != ok2 || !bytes.Equal(v1, v2) {
				kr.violation("read:cache-and-store-disagree", fmt.Sprintf("%s: account %d key %q reads (%v,%s) on the running ledger and (%v,%s) from the store", ctx, a, k, ok1, show(v1), ok2, show(v2)))
			}
		}
		for _, p := range kvPrefixes {
			ok1, q1 := kr.sl.QueryByPrefix(addr, p)
			ok2, q2 := kr.view.QueryByPrefix(addr, p)
			same := ok1 == ok2 && len(q1) == len(q2)
			for i := 0; same && i < len(q1); i++ {
				same = bytes.Equal(q1[i], q2[i])
			}
			if !same {
				kr.violation("query:cache-and-store-disagree", fmt.Sprintf("%s: account %d prefix %q returns %s on the running ledger and %s from the store", ctx, a, p, showList(q1), showList(q2)))
			}
		}
		if b1, b2 := kr.sl.GetBalance(addr), kr.view.GetBalance(addr); b1.Cmp(b2) != 0 {
			kr.violation("read:cache-and-store-disagree", fmt.Sprintf("%s: account %d balance %v on the running ledger, %v from the store", ctx, a, b1, b2))
		}
		if n1, n2 := kr.sl.GetNonce(addr), kr.view.GetNonce(addr); n1 != n2 {
			kr.violation("read:cache-and-store-disagree", fmt.Sprintf("%s: account %d nonce %d on the running ledger, %d from the store", ctx, a, n1, n2))
		}
		if c1, c2 := kr.sl.GetCode(addr), kr.view.GetCode(addr); !bytes.Equal(c1, c2) {
			kr.violation("read:cache-and-store-disagree", fmt.Sprintf("%s: account %d code %q on the running ledger, %q from the store", ctx, a, c1, c2))
		}
	}
	kr.view.Clear()
	// the reads above may have created (unchanged) dirty accounts on the running ledger
	kr.sl.Clear()
}

func nonEmpty(vs [][]byte) [][]byte {
	var out [][]byte
	for _, v := range vs {
		if len(v) != 0 {
			out = append(out, v)
		}
	}
	return out
}

func showList(vs [][]byte) string {
	var s []string
	for _, v := range vs {
		s = append(s, show(v))
	}
	return "[" + strings.Join(s, " ") + "]"
}

func (kr *kvRun) apply(op kvOp) {
	kr.ops = append(kr.ops, op)
	addr := kvAddr(op.A)
	as := fmt.Sprint(op.A)
	inBlock := true
	switch op.Op {
	case "set":
		kr.sl.SetState(addr, []byte(op.K), kvVal(op.V), nil)
		kr.m.Set(as, op.K, kvVal(op.V))
	case "add":
		if old, known := kr.m.Get(as, op.K); known && old != nil {
			kr.shape["add-over-existing"] = true
		}
		kr.sl.AddState(addr, []byte(op.K), kvVal(op.V))
		kr.m.Add(as, op.K, kvVal(op.V))
	case "bal":
		kr.sl.SetBalance(addr, big.NewInt(op.N))
		kr.m.SetBalance(as, big.NewInt(op.N))
	case "nonce":
		kr.sl.SetNonce(addr, uint64(op.N))
		kr.m.SetNonce(as, uint64(op.N))
	case "code":
		kr.sl.SetCode(addr, []byte(op.V))
		kr.m.SetCode(as, []byte(op.V))
	case "snap":
		kr.snaps = append(kr.snaps, kr.sl.Snapshot())
		kr.m.Snapshot()
	case "revert":
		if int(op.N) >= len(kr.snaps) {
			return
		}
		kr.sl.RevertToSnapshot(kr.snaps[op.N])
		kr.m.Revert(int(op.N))
		kr.snaps = kr.snaps[:op.N]
		kr.shape[fmt.Sprintf("revert-depth%d", len(kr.snaps))] = true
	case "endtx":
		kr.sl.Finalise(true)
		kr.m.EndTx()
		kr.snaps = nil
	case "commit":
		kr.sl.Finalise(true)
		kr.m.EndTx()
		kr.snaps = nil
		if kr.prop != "C12" {
			kr.check(true, "before flush")
		}
		accts, root := kr.sl.FlushDirtyData()
		kr.h++
		if kr.prop == "C13" && kr.cfg.Cache[0] == 0 && kr.rng.Intn(2) == 0 {
			// FlushDirtyData and Commit are separate calls of the ledger, and the property quantifies over reads
			// anywhere between them: such reads are served by the account cache alone and must already see the block
			// (only with the production cache sizes: a cache of 1-3 entries, the device this workload uses to
			// provoke evictions, legitimately loses the flushed block before its commit)
			kr.check(true, fmt.Sprintf("between flush and commit of block %d", kr.h))
			kr.stats["obs_read_rounds_between_flush_and_commit"]++
		}
		if err := kr.sl.Commit(kr.h, accts, root); err != nil {
			kr.violation("commit:error", err.Error())
		}
		if kr.prop == "C13" {
			kr.cacheVsStore(fmt.Sprintf("after commit of block %d", kr.h))
		}
		kr.byH[kr.h] = kr.m.Clone()
		kr.recordReads()
		kr.rootAt[kr.h] = root.String()
		kr.blkOps[kr.h] = kr.curOps
		kr.curOps = nil
		inBlock = false
		if kr.h > 10 && kr.h-10 > kr.minH {
			kr.minH = kr.h - 10
		}
		if kr.minH == 0 {
			kr.minH = 1
		}
		kr.stats["blocks"]++
	case "reopen":
		kr.sl.Close()
		if err := kr.open(); err != nil {
			kr.violation("reopen:error", err.Error())
			return
		}
		kr.shape["reopen"] = true
		inBlock = false
		// uncommitted writes are legitimately gone: the specification continues from the last commit
		if st, ok := kr.byH[kr.h]; ok {
			kr.m = st.Clone()
		} else {
			kr.m = model.NewKV()
		}
		kr.snaps = nil
		kr.curOps = nil
	case "rollback":
		inBlock = false
		if kr.prop == "C12" && kr.h > 0 {
			// a rollback discards everything the running ledger holds in memory, so reading through it right
			// before cannot influence the history: what it answers from its caches (after earlier rollbacks and
			// continuations) must be the latest state too
			kr.forceMain = true
			kr.check(true, fmt.Sprintf("running ledger before op %d (rollback)", len(kr.ops)))
			kr.forceMain = false
		}
		kr.rollback(uint64(op.N))
	}
	if inBlock {
		kr.curOps = append(kr.curOps, op)
	}
	if kr.prop == "C13" || op.Op == "rollback" || op.Op == "reopen" {
		kr.check(op.Op == "reopen" || op.Op == "rollback", fmt.Sprintf("after op %d (%s)", len(kr.ops), op.Op))
	}
}

// rollback (C12): only called at a block boundary (nothing dirty).
func (kr *kvRun) rollback(t uint64) {
	inWindow := t <= kr.h && (t >= kr.minH || (kr.minH == 1 && t == 0))
	before := dumpStoreStr(kr.ldb)
	err := kr.sl.RollbackState(t)
	kr.stats["rollbacks"]++
	if !inWindow {
		kr.shape["rollback-refused"] = true
		if err == nil {
			kr.violation("rollback:not-refused", fmt.Sprintf("rollback from height %d to %d (retained window starts at %d) was not refused", kr.h, t, kr.minH))
			return
		}
		if after := dumpStoreStr(kr.ldb); after != before {
			kr.violation("rollback:refused-but-modified", fmt.Sprintf("refused rollback to %d (%v) modified the state store", t, err))
		}
		return
	}
	if err != nil {
		kr.violation("rollback:error", fmt.Sprintf("rollback from %d to retained height %d failed: %v", kr.h, t, err))
		return
	}
	if t == kr.h {
		return
	}
	kr.shape[fmt.Sprintf("rollback-by%d", kr.h-t)] = true
	if t == 0 {
		kr.m = model.NewKV()
	} else {
		kr.m = kr.byH[t].Clone()
	}
	// which keys were, in a rolled-back block, last written by a non-journaled Add over an existing value?
	for hh := t + 1; hh <= kr.h; hh++ {
		delete(kr.byH, hh)
	}
	oldH := kr.h
	kr.h = t
	if kr.sl.Version() != t {
		kr.violation("rollback:version", fmt.Sprintf("after rollback to %d the state ledger reports version %d", t, kr.sl.Version()))
	}
	kr.compareReads(oldH, t)
	// root chain: re-execute the ops of block t+1 and require the recorded root
	if ops, ok := kr.blkOps[t+1]; ok && t+1 <= oldH && kr.rng.Intn(2) == 0 {
		want := kr.rootAt[t+1]
		// model check first (state restored exactly), then replay
		kr.check(true, fmt.Sprintf("after rollback %d->%d", oldH, t))
		for _, op := range ops {
			kr.applyQuiet(op)
		}
		kr.sl.Finalise(true)
		kr.m.EndTx()
		kr.snaps = nil
		accts, root := kr.sl.FlushDirtyData()
		kr.h++
		if err := kr.sl.Commit(kr.h, accts, root); err != nil {
			kr.violation("commit:error", err.Error())
		}
		kr.byH[kr.h] = kr.m.Clone()
		kr.recordReads()
		kr.stats["reexecuted_blocks"]++
		if root.String() != want {
			kr.violation("rollback:root-chain", fmt.Sprintf("re-executing block %d after rollback %d->%d gave state root %s, originally %s", t+1, oldH, t, root.String(), want))
		}
		kr.rootAt[kr.h] = root.String()
		kr.shape["reexec"] = true
	}
	for hh := kr.h + 1; hh <= oldH; hh++ {
		delete(kr.rootAt, hh)
		delete(kr.blkOps, hh)
	}
}

func (kr *kvRun) applyQuiet(op kvOp) {
	addr := kvAddr(op.A)
	as := fmt.Sprint(op.A)
	switch op.Op {
	case "set":
		kr.sl.SetState(addr, []byte(op.K), kvVal(op.V), nil)
		kr.m.Set(as, op.K, kvVal(op.V))
	case "add":
		kr.sl.AddState(addr, []byte(op.K), kvVal(op.V))
		kr.m.Add(as, op.K, kvVal(op.V))
	case "bal":
		kr.sl.SetBalance(addr, big.NewInt(op.N))
		kr.m.SetBalance(as, big.NewInt(op.N))
	case "nonce":
		kr.sl.SetNonce(addr, uint64(op.N))
		kr.m.SetNonce(as, uint64(op.N))
	case "code":
		kr.sl.SetCode(addr, []byte(op.V))
		kr.m.SetCode(as, []byte(op.V))
	case "snap":
		kr.snaps = append(kr.snaps, kr.sl.Snapshot())
		kr.m.Snapshot()
	case "revert":
		if int(op.N) >= len(kr.snaps) {
			return
		}
		kr.sl.RevertToSnapshot(kr.snaps[op.N])
		kr.m.Revert(int(op.N))
		kr.snaps = kr.snaps[:op.N]
	case "endtx":
		kr.sl.Finalise(true)
		kr.m.EndTx()
		kr.snaps = nil
	}
}

func dumpStoreStr(s storage.Storage) string {
	var sb strings.Builder
	it := s.Iterator(nil, nil)
	for it.Next() {
		sb.Write(it.Key())
		sb.WriteByte(0)
		sb.Write(it.Value())
		sb.WriteByte(1)
	}
	return sb.String()
}

func (kr *kvRun) gen(r *rand.Rand, ctr *int, useAdd bool) kvOp {
	if len(kr.queue) > 0 {
		op := kr.queue[0]
		kr.queue = kr.queue[1:]
		return op
	}
	x := r.Intn(100)
	a := r.Intn(3)
	k := kvKeys[r.Intn(len(kvKeys))]
	// now and then a whole pattern on one slot, the kind of sequence a contract call inside a failing
	// transaction produces (the first op is returned, the rest queued; a commit in front makes the
	// snapshot index known)
	if r.Intn(100) < 4 {
		v := func() string { *ctr++; return fmt.Sprintf("v%d", *ctr) }
		var pat []kvOp
		switch r.Intn(6) {
		case 5: // committed value overwritten by one that differs in letter case only, then written back
			w := v()
			up := strings.ToUpper(w)
			pat = []kvOp{{Op: "set", A: a, K: k, V: w}, {Op: "commit"}, {Op: "set", A: a, K: k, V: up}, {Op: "commit"}, {Op: "endtx"}, {Op: "set", A: a, K: k, V: w}, {Op: "commit", Note: "then-reopen"},
				{Op: "code", A: a, V: "code-" + w}, {Op: "commit"}, {Op: "code", A: a, V: "CODE-" + up}, {Op: "commit"}}
		case 0: // committed value, deleted, rewritten inside a snapshot, reverted: the deletion must stand
			pat = []kvOp{{Op: "set", A: a, K: k, V: v()}, {Op: "commit"}, {Op: "set", A: a, K: k, V: "<nil>"}, {Op: "snap"}, {Op: "set", A: a, K: k, V: v()}, {Op: "revert", N: 0}, {Op: "endtx"}, {Op: "commit"}}
		case 1: // committed empty value, overwritten in the next block
			pat = []kvOp{{Op: "set", A: a, K: k, V: v()}, {Op: "commit"}, {Op: "set", A: a, K: k, V: ""}, {Op: "commit"}, {Op: "set", A: a, K: k, V: v()}, {Op: "commit"}}
		case 2: // balance and nonce written, then a code write that is reverted
			*ctr += 2
			pat = []kvOp{{Op: "commit"}, {Op: "bal", A: a, N: int64(*ctr) * 7}, {Op: "nonce", A: a, N: int64(*ctr)}, {Op: "snap"}, {Op: "code", A: a, V: "code-" + v()}, {Op: "revert", N: 0}, {Op: "endtx"}, {Op: "commit"}}
		case 3: // committed value deleted in one block and written back in the next
			w := v()
			pat = []kvOp{{Op: "set", A: a, K: k, V: w}, {Op: "commit"}, {Op: "set", A: a, K: k, V: "<nil>"}, {Op: "commit"}, {Op: "set", A: a, K: k, V: w}, {Op: "commit", Note: "then-reopen"}}
		default: // code written, then only balance / nonce, then the same code again
			c := "code-" + v()
			*ctr++
			pat = []kvOp{{Op: "code", A: a, V: c}, {Op: "commit"}, {Op: "bal", A: a, N: int64(*ctr) * 7}, {Op: "commit", Note: "then-reopen"}, {Op: "bal", A: a, N: int64(*ctr)*7 + 1}, {Op: "commit"}, {Op: "code", A: a, V: c}, {Op: "commit"}}
		}
		kr.queue = pat[1:]
		return pat[0]
	}
	// locality: multi-step patterns on one slot (delete, snapshot, rewrite, revert ...) are what the journal
	// and the caches get wrong, uniform choice over 21 slots almost never produces them
	if kr.hotSet && r.Intn(100) < 45 {
		a, k = kr.hotA, kr.hotK
	}
	kr.hotA, kr.hotK, kr.hotSet = a, k, true
	newVal := func() string {
		switch r.Intn(8) {
		case 0:
			return "<nil>"
		case 1:
			return ""
		}
		*ctr++
		return fmt.Sprintf("v%d", *ctr)
	}
	switch {
	case x < 34:
		return kvOp{Op: "set", A: a, K: k, V: newVal()}
	case x < 42:
		if useAdd {
			return kvOp{Op: "add", A: a, K: k, V: newVal()}
		}
		return kvOp{Op: "set", A: a, K: k, V: newVal()}
	case x < 48:
		*ctr++
		return kvOp{Op: "bal", A: a, N: int64(*ctr) * 7}
	case x < 52:
		*ctr++
		return kvOp{Op: "nonce", A: a, N: int64(*ctr)}
	case x < 59:
		*ctr++
		return kvOp{Op: "code", A: a, V: fmt.Sprintf("code%d", *ctr)}
	case x < 65:
		return kvOp{Op: "snap"}
	case x < 72:
		if n := len(kr.snaps); n > 0 {
			return kvOp{Op: "revert", N: int64(r.Intn(n))}
		}
		return kvOp{Op: "snap"}
	case x < 80:
		return kvOp{Op: "endtx"}
	case x < 96:
		return kvOp{Op: "commit"}
	default:
		return kvOp{Op: "commit", Note: "then-reopen"}
	}
}

func runKV(prop string, cfg kvCfg, ops []kvOp, seed int64, work string) (kr *kvRun, panicked string) {
	dir, _ := ioutil.TempDir(work, "kv.")
	defer os.RemoveAll(dir)
	kr = &kvRun{prop: prop, cfg: cfg, dir: dir, m: model.NewKV(), stats: map[string]int64{}, shape: map[string]bool{}, rng: rand.New(rand.NewSource(seed)),
		byH: map[uint64]*model.KV{}, rootAt: map[uint64]string{}, blkOps: map[uint64][]kvOp{}}
	if err := kr.open(); err != nil {
		return kr, "open: " + err.Error()
	}
	defer func() {
		if p := recover(); p != nil {
			panicked = fmt.Sprint(p)
		}
		kr.sl.Close()
	}()
	for _, op := range ops {
		kr.apply(op)
	}
	if prop == "C12" && kr.h > 0 {
		// C12 observes through a separate ledger while the history runs (its reads must not become part of
		// what is re-executed); at the very end the running ledger itself is read: what it answers from its
		// caches after all the rollbacks and continuations must be the restored-and-continued state too
		kr.forceMain = true
		kr.sl.Finalise(true)
		kr.m.EndTx()
		kr.check(true, "running ledger at the end of the history")
		kr.forceMain = false
	}
	return kr, ""
}

func kvSigs(prop string, cfg kvCfg, ops []kvOp, seed int64, work string) map[string]string {
	kr, p := runKV(prop, cfg, ops, seed, work)
	out := map[string]string{}
	if p != "" {
		out["panic"] = p
	}
	for _, v := range kr.viols {
		if _, ok := out[v.sig]; !ok {
			out[v.sig] = v.detail
		}
	}
	return out
}

func shrinkKV(prop string, cfg kvCfg, ops []kvOp, seed int64, work, sig string) []kvOp {
	has := func(o []kvOp) bool { _, ok := kvSigs(prop, cfg, o, seed, work)[sig]; return ok }
	cur := append([]kvOp{}, ops...)
	if !has(cur) {
		return cur
	}
	budget := 600
	// chunked removal first, then single ops
	for chunk := len(cur) / 2; chunk >= 1 && budget > 0; chunk /= 2 {
		for i := 0; i+chunk <= len(cur) && budget > 0; {
			cand := append(append([]kvOp{}, cur[:i]...), cur[i+chunk:]...)
			budget--
			if has(cand) {
				cur = cand
			} else {
				i += chunk
			}
		}
	}
	return cur
}

func kvWorkload(prop string, args []string) int {
	a := parseArgs("kv", args, nil)
	w := vlog.Open(a.Out)
	shrunk := map[string]bool{}
	for id := a.From; id < a.To; id++ {
		if prop == "C12" && id%5 == 4 {
			// executor-level clause: rollback through the ledger / the executor's own path on a
			// real chain, then re-execute the same blocks and require the same block hashes
			chainCase("C12", w, a, id)
			continue
		}
		rng := vlog.CaseRand(a.Seed, "kv"+prop, id)
		cfg := kvCfg{}
		if rng.Intn(3) != 0 {
			cfg.Cache = [3]int{1 + rng.Intn(3), 1 + rng.Intn(2), 1 + rng.Intn(2)}
		}
		useAdd := rng.Intn(3) != 0
		nOps := 60
		if prop == "C12" {
			nOps = 140
		}
		w.CaseStart(id, map[string]interface{}{"cfg": cfg, "use_add": useAdd})
		guard(w, "kv", func() {
			// generate ops against a shadow run so that generation can look at snapshot depth / height
			shadow := &kvRun{}
			ctr := 0
			var ops []kvOp
			depth := 0
			h := uint64(0)
			minH := uint64(0)
			for i := 0; i < nOps; i++ {
				shadow.snaps = make([]int, depth)
				op := shadow.gen(rng, &ctr, useAdd)
				switch op.Op {
				case "snap":
					depth++
				case "revert":
					depth = int(op.N)
				case "endtx":
					depth = 0
				case "commit":
					depth = 0
					h++
					if h > 10 {
						minH = h - 10
					} else {
						minH = 1
					}
				}
				ops = append(ops, op)
				if op.Note == "then-reopen" {
					ops = append(ops, kvOp{Op: "reopen"})
				}
				if prop == "C12" && op.Op == "commit" && h >= 2 && rng.Intn(4) == 0 {
					var t uint64
					switch y := rng.Intn(10); {
					case y < 6:
						t = minH + uint64(rng.Int63n(int64(h-minH+1)))
					case y < 7 && minH > 1:
						t = uint64(rng.Int63n(int64(minH))) // beyond the window
					case y < 8:
						t = h + 1 + uint64(rng.Intn(3)) // higher
					default:
						t = h - 1
					}
					if rng.Intn(5) == 0 {
						ops = append(ops, kvOp{Op: "reopen"})
					}
					ops = append(ops, kvOp{Op: "rollback", N: int64(t)})
					if t <= h && (t >= minH || (minH == 1 && t == 0)) {
						// the replay inside rollback may add one block; the worker tracks the true height,
						// the generator only needs an approximation for choosing later targets
						h = t
						if h > 10 {
							minH = h - 10
						}
					}
				}
			}
			ops = append(ops, kvOp{Op: "commit"}, kvOp{Op: "reopen"})
			kr, p := runKV(prop, cfg, ops, a.Seed+int64(id), a.Work)
			if p != "" {
				w.Violation("kv:panic", p, map[string]interface{}{"cfg": cfg, "ops": ops})
			}
			for k, v := range kr.stats {
				w.Count(k, v)
			}
			seen := map[string]bool{}
			for _, v := range kr.viols {
				if seen[v.sig] {
					continue
				}
				seen[v.sig] = true
				wit := map[string]interface{}{"cfg": cfg, "ops": ops, "read_seed": a.Seed + int64(id)}
				if !shrunk[v.sig] {
					shrunk[v.sig] = true
					small := shrinkKV(prop, cfg, ops, a.Seed+int64(id), a.Work, v.sig)
					wit = map[string]interface{}{"cfg": cfg, "ops": small, "shrunk_from": len(ops), "read_seed": a.Seed + int64(id)}
					if d, ok := kvSigs(prop, cfg, small, a.Seed+int64(id), a.Work)[v.sig]; ok {
						v.detail = d
					}
				}
				w.Violation(v.sig, v.detail, wit)
			}
			var sh []string
			for k := range kr.shape {
				sh = append(sh, k)
			}
			sortStrings(sh)
			if id == a.From {
				n := len(ops)
				if n > 30 {
					n = 30
				}
				w.Sample(map[string]interface{}{"case": id, "cfg": cfg, "first_ops": ops[:n]})
			}
			w.CaseDone(fmt.Sprintf("c%v|add%v|%s", cfg.Cache, useAdd, strings.Join(sh, ",")), len(sh) > 0)
		})
	}
	w.End()
	return 0
}
