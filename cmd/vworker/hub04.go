package main

import (
	"fmt"
	"math/rand"
	"os"
	"path/filepath"
	"sort"
	"strings"

	"github.com/meshplus/bitxhub-model/pb"
	"github.com/meshplus/bitxhub/verif/harness"
	"github.com/meshplus/bitxhub/verif/model"
	"github.com/meshplus/bitxhub/verif/vlog"
)

// hub04Case: the source-hub side of one-to-one transactions between two BitXHubs (C04's
// "between two BitXHubs also to FAILURE or ROLLBACK on the destination hub's signed
// begin-failure / rollback notice"). A local service sends requests to a service behind the remote
// hub 9999; the answers come back either as receipts carrying the remote validators' signatures
// or as notices: the original request again, with Extra = BxhProof{BEGIN_FAILURE|BEGIN_ROLLBACK}.
// Reference model: a transaction is BEGIN after its accepted request; a SUCCESS / FAILURE receipt
// or a notice is accepted only for the next unanswered index of the pair and only in BEGIN;
// everything else is rejected without effect; SUCCESS, FAILURE, ROLLBACK are final.
type hubTx struct {
	status  int
	history []string
}

func hub04Case(w *vlog.W, a *wargs, id int, rng *rand.Rand) {
	opts := harness.Options{NoAudit: rng.Intn(2) == 0}
	w.CaseStart(id, map[string]interface{}{"opts": opts, "kind": "inter-hub, source side"})
	fx := filepath.Join(a.Work, fmt.Sprintf("fxh-%v", opts.NoAudit))
	if _, err := os.Stat(fx); err != nil {
		if err := buildHubFixture(fx, harness.Options{NoAudit: opts.NoAudit}); err != nil {
			os.RemoveAll(fx)
			w.Inconclusive("fixture: " + err.Error())
			w.CaseDone("fixture-error", false)
			return
		}
	}
	dir := filepath.Join(a.Work, fmt.Sprintf("hubcase-%d", id))
	defer os.RemoveAll(dir)
	if err := harness.CopyDir(fx, dir); err != nil {
		w.Inconclusive(err.Error())
		return
	}
	world, err := harness.OpenWorld(dir, opts)
	if err != nil {
		w.Violation("open:error", err.Error(), nil)
		w.CaseDone("open-error", false)
		return
	}
	defer func() { world.R.Close() }()
	var hist []string
	seen := map[string]bool{}
	viol := func(sig, detail string) {
		if seen[sig] {
			return
		}
		seen[sig] = true
		w.Violation(sig, detail, map[string]interface{}{"opts": opts, "history": hist})
	}
	type pairT struct{ from, to string }
	pairs := []pairT{
		{harness.FullID(harness.ChainA, "s1"), hubID + ":cX:sY"},
		{harness.FullID(harness.ChainC, "s2"), hubID + ":cX:sZ"},
	}
	req := map[string]uint64{}
	rcp := map[string]uint64{}
	txs := map[string]*hubTx{}
	shape := map[string]bool{}
	mkIB := func(p pairT, idx uint64, typ pb.IBTP_Type) *pb.IBTP {
		pd := &pb.Payload{Content: []byte("content"), Hash: []byte(fmt.Sprintf("payload-hash-%s-%d", p.from, idx))}
		pdb, _ := pd.Marshal()
		return &pb.IBTP{From: p.from, To: p.to, Index: idx, Type: typ, Payload: pdb}
	}
	signed := func(ib *pb.IBTP, status pb.TransactionStatus, n int) []byte {
		var sigs [][]byte
		for v := 0; v < n; v++ {
			s, _ := validatorKey(v).Priv.Sign(interHubHash(ib, status))
			sigs = append(sigs, s)
		}
		b, _ := (&pb.BxhProof{TxStatus: status, MultiSign: sigs}).Marshal()
		return b
	}
	type ev struct {
		desc   string
		id     string
		accept bool
		next   int
		final  bool
		pair   string
		isReq  bool
	}
	nBlocks := 14 + rng.Intn(10)
	for b := 0; b < nBlocks; b++ {
		if rng.Intn(8) == 0 && b > 0 {
			world.R.Close()
			world, err = harness.OpenWorld(dir, opts)
			if err != nil {
				viol("reopen:error", err.Error())
				return
			}
			hist = append(hist, "restart")
			shape["restart"] = true
		}
		n := 1 + rng.Intn(4)
		var blk []pb.Transaction
		var evs []ev
		// working copies so that several events of one block chain up
		lreq, lrcp := map[string]uint64{}, map[string]uint64{}
		lst := map[string]int{}
		for k, v := range req {
			lreq[k] = v
		}
		for k, v := range rcp {
			lrcp[k] = v
		}
		stOf := func(id string) int {
			if s, ok := lst[id]; ok {
				return s
			}
			if t := txs[id]; t != nil {
				return t.status
			}
			return model.StNone
		}
		for i := 0; i < n; i++ {
			p := pairs[rng.Intn(len(pairs))]
			k := p.from + "|" + p.to
			pier := harness.User(rng.Intn(3))
			switch x := rng.Intn(100); {
			case x < 35: // request
				idx := lreq[k] + 1
				if rng.Intn(8) == 0 {
					idx = lreq[k] + uint64(rng.Intn(3)) // duplicate or future
				}
				ib := mkIB(p, idx, pb.IBTP_INTERCHAIN)
				tid := fmt.Sprintf("%s-%s-%d", p.from, p.to, idx)
				e := ev{desc: fmt.Sprintf("request %s #%d", k, idx), id: tid, pair: k, isReq: true}
				if idx == lreq[k]+1 {
					e.accept, e.next = true, model.StBegin
					lreq[k] = idx
					lst[tid] = model.StBegin
				}
				blk = append(blk, world.IBTPTx(pier, ib, []byte{1, 2, 3}))
				evs = append(evs, e)
			case x < 65: // receipt relayed from the remote hub, signed by its validators
				idx := lrcp[k] + 1
				if rng.Intn(6) == 0 && lreq[k] > 0 {
					idx = 1 + uint64(rng.Int63n(int64(lreq[k]))) // any known index: already answered, or ahead
				}
				kind := rng.Intn(3)
				typ := []pb.IBTP_Type{pb.IBTP_RECEIPT_SUCCESS, pb.IBTP_RECEIPT_FAILURE, pb.IBTP_RECEIPT_ROLLBACK}[kind]
				st := []pb.TransactionStatus{pb.TransactionStatus_SUCCESS, pb.TransactionStatus_FAILURE, pb.TransactionStatus_ROLLBACK}[kind]
				nsig := 2 + rng.Intn(2)
				if rng.Intn(6) == 0 {
					nsig = rng.Intn(2) // too few signatures
				}
				ib := mkIB(p, idx, typ)
				tid := fmt.Sprintf("%s-%s-%d", p.from, p.to, idx)
				// the validators' signatures are over this IBTP and its status: a relayer that keeps the proof of a
				// receipt of another type (say the failure receipt the validators really signed) and rewrites the
				// type field presents signatures that do not cover what it sends
				signedIB, forged := ib, ""
				if rng.Intn(6) == 0 {
					other := mkIB(p, idx, []pb.IBTP_Type{pb.IBTP_RECEIPT_FAILURE, pb.IBTP_RECEIPT_ROLLBACK, pb.IBTP_RECEIPT_SUCCESS}[kind])
					signedIB, forged = other, fmt.Sprintf(", signatures over a %s", other.Type)
					shape["receipt-type-rewritten"] = true
				}
				e := ev{desc: fmt.Sprintf("receipt(%s, %d sigs%s) %s #%d", typ, nsig, forged, k, idx), id: tid, pair: k}
				if forged == "" && nsig >= 2 && idx == lrcp[k]+1 && stOf(tid) == model.StBegin && kind < 2 {
					e.accept, e.next, e.final = true, []int{model.StSuccess, model.StFailure}[kind], true
					lrcp[k] = idx
					lst[tid] = e.next
				}
				blk = append(blk, world.IBTPTx(pier, ib, signed(signedIB, st, nsig)))
				evs = append(evs, e)
			default: // notice: the request again, Extra says what happened on the destination hub
				idx := lrcp[k] + 1
				if rng.Intn(3) == 0 && lreq[k] > 0 {
					idx = 1 + uint64(rng.Int63n(int64(lreq[k]))) // often an index that is already final
				}
				nst := []pb.TransactionStatus{pb.TransactionStatus_BEGIN_FAILURE, pb.TransactionStatus_BEGIN_ROLLBACK}[rng.Intn(2)]
				ib := mkIB(p, idx, pb.IBTP_INTERCHAIN)
				ib.Extra = signed(ib, nst, 2+rng.Intn(2))
				tid := fmt.Sprintf("%s-%s-%d", p.from, p.to, idx)
				e := ev{desc: fmt.Sprintf("notice(%s) %s #%d", nst, k, idx), id: tid, pair: k}
				switch {
				case stOf(tid) == model.StNone:
					// no such request yet: it is an ordinary request whose Extra is ignored
					e.isReq = true
					if idx == lreq[k]+1 {
						e.accept, e.next = true, model.StBegin
						lreq[k] = idx
						lst[tid] = model.StBegin
					}
				case stOf(tid) == model.StBegin && idx == lrcp[k]+1:
					e.accept, e.final = true, true
					e.next = map[pb.TransactionStatus]int{pb.TransactionStatus_BEGIN_FAILURE: model.StFailure, pb.TransactionStatus_BEGIN_ROLLBACK: model.StRollback}[nst]
					lrcp[k] = idx
					lst[tid] = e.next
				}
				if stOf(tid) >= model.StSuccess && !e.accept {
					shape["notice-after-final"] = true
				}
				blk = append(blk, world.IBTPTx(pier, ib, []byte{1, 2, 3}))
				evs = append(evs, e)
			}
		}
		var ds []string
		for _, e := range evs {
			ds = append(ds, e.desc)
		}
		res, err := world.Exec(blk...)
		if err != nil {
			viol("exec:error", err.Error())
			return
		}
		h := res.Height
		hist = append(hist, fmt.Sprintf("block %d: %s", h, strings.Join(ds, " | ")))
		w.Step(hist[len(hist)-1])
		w.Count("hub_blocks", 1)
		for i, e := range evs {
			ok := res.Receipts[i].Status == pb.Receipt_SUCCESS
			w.Count("hub_events", 1)
			if e.accept && !ok {
				viol("hub:valid-rejected", fmt.Sprintf("block %d tx %d: %s should be accepted (status before: %s) but was rejected: %s", h, i, e.desc, model.StName[func() int {
					if t := txs[e.id]; t != nil {
						return t.status
					}
					return model.StNone
				}()], string(res.Receipts[i].Ret)))
				// resynchronise the model with the node
				continue
			}
			if !e.accept && ok {
				cur := model.StNone
				if t := txs[e.id]; t != nil {
					cur = t.status
				}
				viol("hub:invalid-accepted:"+strings.Fields(e.desc)[0][:6], fmt.Sprintf("block %d tx %d: %s must be rejected (transaction status %s, next unanswered index of the pair %d) but was accepted", h, i, e.desc, model.StName[cur], rcp[e.pair]+1))
				continue
			}
			if !e.accept {
				w.Count("hub_rejected_as_expected", 1)
				continue
			}
			t := txs[e.id]
			if t == nil {
				t = &hubTx{status: model.StNone}
				txs[e.id] = t
			}
			t.history = append(t.history, fmt.Sprintf("h%d:%s", h, model.StName[e.next]))
			t.status = e.next
			if e.isReq {
				req[e.pair]++
			}
			if e.final {
				rcp[e.pair]++
				shape["final:"+model.StName[e.next]] = true
			}
		}
		// every tracked transaction reports the status the accepted events give
		var ids []string
		for id := range txs {
			ids = append(ids, id)
		}
		sort.Strings(ids)
		for _, id := range ids {
			got := world.Status(id)
			w.Count("hub_status_checks", 1)
			if got != txs[id].status {
				sig := fmt.Sprintf("hub:status:%s-reported-as-%s", model.StName[txs[id].status], model.StName[got])
				if txs[id].status >= model.StSuccess {
					sig = fmt.Sprintf("hub:final-state-left:%s->%s", model.StName[txs[id].status], model.StName[got])
				}
				viol(sig, fmt.Sprintf("after block %d transaction %s reports %s, the accepted events give %s (history %v)", h, id, model.StName[got], model.StName[txs[id].status], txs[id].history))
				txs[id].status = got
			}
		}
		for _, f := range world.R.TakeRouterFindings() {
			_ = f // router findings belong to C02/C05/C06
		}
	}
	var sh []string
	for k := range shape {
		sh = append(sh, k)
	}
	sort.Strings(sh)
	if id%6 == 5 && id < 12 {
		hh := hist
		if len(hh) > 10 {
			hh = hh[:10]
		}
		w.Sample(map[string]interface{}{"case": id, "kind": "inter-hub source side", "first_blocks": hh})
	}
	w.CaseDone("interhub|"+strings.Join(sh, ","), len(txs) > 0)
}
