package main

import (
	"bufio"
	"crypto/sha256"
	"encoding/base64"
	"encoding/json"
	"flag"
	"fmt"
	"io/ioutil"
	"math/rand"
	"os"
	"os/exec"
	"path/filepath"
	"sort"
	"strings"

	"github.com/meshplus/bitxhub-kit/types"
	"github.com/meshplus/bitxhub-model/pb"
	"github.com/meshplus/bitxhub/verif/harness"
	"github.com/meshplus/bitxhub/verif/vlog"
)

func init() {
	workloads["det01"] = det01Workload
	workloads["det01-replay"] = det01Replay
}

type histBlock struct {
	TS    int64  `json:"ts"`
	Local []bool `json:"local"`
	Txs   string `json:"txs"` // base64(pb.Transactions.Marshal)
	N     int    `json:"n"`
}

type history struct {
	Opts   harness.Options `json:"opts"`
	Blocks []histBlock     `json:"blocks"` // blocks 2..
}

type heightResult struct {
	H        uint64   `json:"h"`
	Hash     string   `json:"hash"`
	State    string   `json:"state_root"`
	TxRoot   string   `json:"tx_root"`
	RcRoot   string   `json:"receipt_root"`
	ToRoot   string   `json:"timeout_root"`
	Parent   string   `json:"parent"`
	Receipts []string `json:"receipts"`
	Rets     []string `json:"rets"` // status + ret of every receipt (reported on divergence, not compared)
	Meta     string   `json:"meta"`
}

type replayResult struct {
	Name    string         `json:"name"`
	Heights []heightResult `json:"heights"`
	Dump    string         `json:"dump"`
	Err     string         `json:"err,omitempty"`
}

func canonicalMeta(m *pb.InterchainMeta) string {
	if m == nil {
		return "<nil>"
	}
	var sb strings.Builder
	keys := func(n int, f func(i int) string) []string {
		out := make([]string, 0, n)
		for i := 0; i < n; i++ {
			out = append(out, f(i))
		}
		sort.Strings(out)
		return out
	}
	_ = keys
	var ck []string
	for k := range m.Counter {
		ck = append(ck, k)
	}
	sort.Strings(ck)
	sb.WriteString("counter{")
	for _, k := range ck {
		sb.WriteString(k + ":[")
		for _, v := range m.Counter[k].Slice {
			sb.WriteString(fmt.Sprintf("(%d,%v,%v)", v.Index, v.Valid, v.IsBatch))
		}
		sb.WriteString("]")
	}
	sb.WriteString("} timeout{")
	var tk []string
	for k := range m.TimeoutCounter {
		tk = append(tk, k)
	}
	sort.Strings(tk)
	for _, k := range tk {
		sb.WriteString(k + ":[" + strings.Join(m.TimeoutCounter[k].Slice, ",") + "]")
	}
	sb.WriteString("} l2roots[")
	for _, h := range m.TimeoutL2Roots {
		sb.WriteString(h.String() + ",")
	}
	sb.WriteString("] multitx{")
	var mk []string
	for k := range m.MultiTxCounter {
		mk = append(mk, k)
	}
	sort.Strings(mk)
	for _, k := range mk {
		sb.WriteString(k + ":[" + strings.Join(m.MultiTxCounter[k].Slice, ",") + "]")
	}
	sb.WriteString("}")
	return sb.String()
}

func hs(h *types.Hash) string {
	if h == nil {
		return "<nil>"
	}
	return h.String()
}

func toHeightResult(res *harness.BlockResult) heightResult {
	hr := heightResult{H: res.Height, Hash: hs(res.Block.BlockHash), Meta: canonicalMeta(res.Meta)}
	if bh := res.Block.BlockHeader; bh != nil {
		hr.State, hr.TxRoot, hr.RcRoot, hr.ToRoot, hr.Parent = hs(bh.StateRoot), hs(bh.TxRoot), hs(bh.ReceiptRoot), hs(bh.TimeoutRoot), hs(bh.ParentHash)
	}
	for _, rc := range res.Receipts {
		b, _ := rc.Marshal()
		hr.Receipts = append(hr.Receipts, fmt.Sprintf("%x", sha256.Sum256(b)))
		ret := string(rc.Ret)
		if len(ret) > 300 {
			ret = ret[:300]
		}
		hr.Rets = append(hr.Rets, fmt.Sprintf("%v gas=%d events=%d ret=%q", rc.Status, rc.GasUsed, len(rc.Events), ret))
	}
	return hr
}

func dumpDigest(r *harness.Replica) string {
	d := r.DumpState()
	h := sha256.New()
	for _, k := range harness.SortedKeys(d) {
		if strings.HasPrefix(k, "journal-") {
			continue // undo records list accounts in map order; not a result the property names
		}
		h.Write([]byte(k))
		h.Write([]byte{0})
		h.Write(d[k])
		h.Write([]byte{1})
	}
	return fmt.Sprintf("%x", h.Sum(nil))
}

func describeTx(tx pb.Transaction) string {
	bt, ok := tx.(*pb.BxhTransaction)
	if !ok {
		return "eth-tx"
	}
	if bt.IBTP != nil {
		g := ""
		if bt.IBTP.Group != nil {
			g = fmt.Sprintf(" group%d", len(bt.IBTP.Group.Keys))
		}
		return fmt.Sprintf("ibtp[%v %s->%s #%d T=%d%s]", bt.IBTP.Type, bt.IBTP.From, bt.IBTP.To, bt.IBTP.Index, bt.IBTP.TimeoutHeight, g)
	}
	td := &pb.TransactionData{}
	if err := td.Unmarshal(bt.Payload); err != nil {
		return "unparsable-payload"
	}
	if td.Type == pb.TransactionData_NORMAL {
		return "transfer[" + td.Amount + "]"
	}
	ip := &pb.InvokePayload{}
	if td.VmType == pb.TransactionData_BVM && ip.Unmarshal(td.Payload) == nil {
		to := "<nil>"
		if bt.To != nil {
			to = bt.To.String()[36:]
		}
		return fmt.Sprintf("bvm[%s.%s/%d]", to, ip.Method, len(ip.Args))
	}
	return fmt.Sprintf("vm%d[%d bytes]", td.VmType, len(td.Payload))
}

// replayHistory executes the history on a fresh (or existing) directory.
func replayHistory(dir string, hist *history, restartAt map[uint64]bool, fromH, toH uint64, dumpAt uint64, dumpOut string) (*replayResult, error) {
	rr := &replayResult{}
	r, err := harness.Open(dir, hist.Opts)
	if err != nil {
		return rr, err
	}
	defer func() { r.Close() }()
	if pipelineWindow > 1 {
		// blocks go to the executor in windows, without waiting for the previous one to be committed
		for i := 0; i < len(hist.Blocks); i += pipelineWindow {
			var win []harness.PipeBlock
			for j := i; j < i+pipelineWindow && j < len(hist.Blocks); j++ {
				raw, err := base64.StdEncoding.DecodeString(hist.Blocks[j].Txs)
				if err != nil {
					return rr, err
				}
				txs := &pb.Transactions{}
				if len(raw) > 0 {
					if err := txs.Unmarshal(raw); err != nil {
						return rr, fmt.Errorf("unmarshal txs of block %d: %v", j+2, err)
					}
				}
				win = append(win, harness.PipeBlock{Txs: txs.Transactions, TS: hist.Blocks[j].TS, Local: hist.Blocks[j].Local})
			}
			res, err := r.ExecPipelined(win)
			for _, br := range res {
				if len(br.Receipts) > 0 || len(br.Block.Transactions.Transactions) == 0 {
					rr.Heights = append(rr.Heights, toHeightResult(br))
				}
			}
			if err != nil {
				return rr, fmt.Errorf("window starting at block %d: %v", i+2, err)
			}
		}
		rr.Dump = dumpDigest(r)
		return rr, nil
	}
	for i, hb := range hist.Blocks {
		h := uint64(i + 2)
		if h < fromH || (toH != 0 && h > toH) {
			continue
		}
		if restartAt[h-1] { // stop/reopen before executing block h
			r.Close()
			r, err = harness.Open(dir, hist.Opts)
			if err != nil {
				return rr, fmt.Errorf("reopen before block %d: %v", h, err)
			}
		}
		raw, err := base64.StdEncoding.DecodeString(hb.Txs)
		if err != nil {
			return rr, err
		}
		txs := &pb.Transactions{}
		if len(raw) > 0 {
			if err := txs.Unmarshal(raw); err != nil {
				return rr, fmt.Errorf("unmarshal txs of block %d: %v", h, err)
			}
		}
		if r.Height()+1 != h {
			return rr, fmt.Errorf("replica at height %d cannot take block %d", r.Height(), h)
		}
		res, err := r.ExecBlock(txs.Transactions, hb.TS, hb.Local)
		if err != nil {
			return rr, fmt.Errorf("block %d: %v", h, err)
		}
		rr.Heights = append(rr.Heights, toHeightResult(res))
		if dumpAt == h && dumpOut != "" {
			d := r.DumpState()
			m := map[string]string{}
			for k, v := range d {
				if !strings.HasPrefix(k, "journal-") {
					m[fmt.Sprintf("%q", k)] = fmt.Sprintf("%q", string(v))
				}
			}
			jb, _ := json.Marshal(m)
			ioutil.WriteFile(dumpOut, jb, 0644)
		}
	}
	rr.Dump = dumpDigest(r)
	return rr, nil
}

var pipelineWindow int

// det01Replay is the child-process entry: replay a history file, print results as JSON.
func det01Replay(args []string) int {
	fs := flag.NewFlagSet("det01-replay", flag.ExitOnError)
	histFile := fs.String("hist", "", "")
	dir := fs.String("dir", "", "")
	out := fs.String("out", "", "")
	restarts := fs.String("restarts", "", "comma separated heights after which to stop/reopen")
	repeats := fs.Int("repeats", 1, "")
	from := fs.Uint64("fromh", 0, "")
	to := fs.Uint64("toh", 0, "")
	dumpAt := fs.Uint64("dumpat", 0, "")
	dumpOut := fs.String("dumpout", "", "")
	fs.IntVar(&pipelineWindow, "pipeline", 0, "hand blocks to the executor in windows of this size without waiting for commits")
	fs.Parse(args)
	b, err := ioutil.ReadFile(*histFile)
	if err != nil {
		fmt.Println(err)
		return 3
	}
	hist := &history{}
	if err := json.Unmarshal(b, hist); err != nil {
		fmt.Println(err)
		return 3
	}
	ra := map[uint64]bool{}
	for _, s := range strings.Split(*restarts, ",") {
		var h uint64
		if _, err := fmt.Sscan(s, &h); err == nil {
			ra[h] = true
		}
	}
	if *restarts == "all" {
		// stop and reopen after every block: nothing may live in memory only
		for i := range hist.Blocks {
			ra[uint64(i)+2] = true // hist.Blocks[0] is block 2
		}
		ra[1] = true
	}
	f, _ := os.Create(*out)
	w := bufio.NewWriter(f)
	for k := 0; k < *repeats; k++ {
		d := *dir
		if *repeats > 1 {
			d = fmt.Sprintf("%s.%d", *dir, k)
		}
		rr, err := replayHistory(d, hist, ra, *from, *to, *dumpAt, *dumpOut)
		if err != nil {
			rr.Err = err.Error()
		}
		jb, _ := json.Marshal(rr)
		w.Write(jb)
		w.WriteString("\n")
		if *repeats > 1 {
			os.RemoveAll(d)
		}
	}
	w.Flush()
	f.Close()
	return 0
}

func det01Workload(args []string) int {
	a := parseArgs("det01", args, nil)
	w := vlog.Open(a.Out)
	self := os.Getenv("VERIF_SELF")
	if self == "" {
		self, _ = os.Executable()
	}
	for id := a.From; id < a.To; id++ {
		rng := vlog.CaseRand(a.Seed, "det01", id)
		opts := harness.Options{NoAudit: rng.Intn(3) == 0}
		if rng.Intn(2) == 0 {
			opts.ProofType = "parallel"
		}
		w.CaseStart(id, map[string]interface{}{"opts": opts})
		guard(w, "det01", func() {
			caseDir := filepath.Join(a.Work, fmt.Sprintf("c%d", id))
			os.MkdirAll(caseDir, 0755)
			defer os.RemoveAll(caseDir)
			// ---- R0: generate the history with feedback
			hist := &history{Opts: opts}
			world, err := harness.OpenWorld(filepath.Join(caseDir, "r0"), opts)
			if err != nil {
				w.Violation("open:error", err.Error(), nil)
				w.CaseDone("open-error", false)
				return
			}
			var r0 []heightResult
			var descs [][]string
			world.Rec = func(txs []pb.Transaction, ts int64, local []bool) {
				raw, _ := (&pb.Transactions{Transactions: txs}).Marshal()
				hist.Blocks = append(hist.Blocks, histBlock{TS: ts, Local: local, Txs: base64.StdEncoding.EncodeToString(raw), N: len(txs)})
				var d []string
				for _, tx := range txs {
					d = append(d, describeTx(tx))
				}
				descs = append(descs, d)
			}
			// fixture blocks: run through a wrapper that records results
			origExec := world.R
			_ = origExec
			if err := world.BuildExtended(); err != nil {
				w.Inconclusive("fixture: " + err.Error())
				w.CaseDone("fixture-error", false)
				return
			}
			fixtureBlocks := len(hist.Blocks)
			g := newMixGen(world, rng)
			nBlocks := 24 + rng.Intn(10)
			// every second history: in the middle, the master rule of chainW (bound to a rule that wants proofs
			// starting with 0x01) is changed to the built-in always-true rule by a proposal whose deciding vote is the
			// only transaction of a block, and the very next block carries a request from chainW whose proof only the
			// new rule accepts. Proofs are checked against the state after the previous block: a replica that is
			// handed both blocks back to back must not answer differently from one that gets them one by one.
			scriptAt := -1
			if rng.Intn(2) == 0 {
				scriptAt = nBlocks/2 + rng.Intn(4)
			}
			for b := 0; b < nBlocks; b++ {
				if b == scriptAt {
					ca := harness.ChainAdmin("chainW")
					step := func(what string, txs ...pb.Transaction) *harness.BlockResult {
						w.Step("R0 scripted: " + what)
						res, err := world.Exec(txs...)
						if err != nil {
							return nil
						}
						g.absorb(txs, res)
						return res
					}
					if res := step("UpdateMasterRule(chainW -> always-true rule)", world.BVM(ca, harness.AddrRule, "UpdateMasterRule", pb.String("chainW"), pb.String("0x00000000000000000000000000000000000000a2"), pb.String("reason"))); res != nil && res.Receipts[0].Status == pb.Receipt_SUCCESS {
						pid := harness.ProposalID(res.Receipts[0])
						step("two approvals", world.BVM(harness.AdminKey(0), harness.AddrGov, "Vote", pb.String(pid), pb.String("approve"), pb.String("r")),
							world.BVM(harness.AdminKey(1), harness.AddrGov, "Vote", pb.String(pid), pb.String("approve"), pb.String("r")))
						if len(hist.Blocks)%8 == 7 {
							step("idle block (keeps the next two blocks in one window of the pipelined replica)", world.Transfer(harness.User(1), harness.User(2).Addr, "1"))
						}
						step("the deciding approval", world.BVM(harness.AdminKey(2), harness.AddrGov, "Vote", pb.String(pid), pb.String("approve"), pb.String("r")))
						ib := harness.MkIBTP(harness.FullID("chainW", "s1"), harness.FullID(harness.ChainB, "s1"), 1, pb.IBTP_INTERCHAIN, 0)
						if res := step("request from chainW with a proof only the new rule accepts", world.IBTPTx(harness.User(0), ib, []byte("junk"))); res != nil {
							w.Count("scripted_rule_change_followed_by_dependent_request", 1)
							if res.Receipts[0].Status == pb.Receipt_SUCCESS {
								w.Count("scripted_dependent_request_accepted", 1)
							}
						}
					}
				}
				h := world.R.Height() + 1
				txs := g.genBlock(h)
				w.Step(fmt.Sprintf("R0 block %d (%d txs)", h, len(txs)))
				res, err := world.Exec(txs...)
				if err != nil {
					w.Violation("exec:error", fmt.Sprintf("block %d: %v", h, err), nil)
					break
				}
				g.absorb(txs, res)
				for i, tx := range txs {
					if bt, ok := tx.(*pb.BxhTransaction); ok && bt.To != nil && bt.To.String() == (&types.Address{}).String() && i < len(res.Receipts) && res.Receipts[i].Status == pb.Receipt_SUCCESS && len(res.Receipts[i].Ret) == 20 {
						g.ruleAddr = append(g.ruleAddr, types.NewAddress(res.Receipts[i].Ret).String())
					}
				}
			}
			for k, n := range g.kinds {
				w.Count("tx:"+k, int64(n))
			}
			// R0's own results: re-read every height from the ledger
			for h := uint64(2); h <= world.R.Height(); h++ {
				blk, err := world.R.L.GetBlock(h, true)
				if err != nil {
					w.Violation("r0:getblock", err.Error(), nil)
					break
				}
				meta, _ := world.R.L.GetInterchainMeta(h)
				res := &harness.BlockResult{Height: h, Block: blk, Meta: meta}
				for _, tx := range blk.Transactions.Transactions {
					rc, _ := world.R.L.GetReceipt(tx.GetHash())
					if rc != nil {
						res.Receipts = append(res.Receipts, rc)
					}
				}
				r0 = append(r0, toHeightResult(res))
			}
			r0dump := dumpDigest(world.R)
			head := world.R.Height()
			world.R.Close()
			histFile := filepath.Join(caseDir, "hist.json")
			hb, _ := json.Marshal(hist)
			ioutil.WriteFile(histFile, hb, 0644)

			// ---- other replicas, each in its own OS process
			type spec struct {
				name    string
				args    []string
				env     []string
				procs   [][2]uint64 // height ranges run by successive processes on one directory
				repeats int
			}
			pick := func() uint64 { return 2 + uint64(rng.Int63n(int64(head-1))) }
			rs := fmt.Sprintf("1,%d,%d,%d", pick(), pick(), uint64(fixtureBlocks)+1)
			split1, split2 := pick(), pick()
			if split1 > split2 {
				split1, split2 = split2, split1
			}
			hooks := "VERIF_HOOKS=exec.sign.go=sleep:300:0.5,exec.proof.go=sleep:400:0.5,ledger.persist.state.begin=sleep:500:0.5,ledger.persist.chain.begin=sleep:500:0.5,chain.persist.before_bf=sleep:300:0.5,chain.persist.before_batch=sleep:300:0.5"
			nrep := 4
			if a.Tier == "thorough" {
				nrep = 12
			}
			specs := []spec{
				{name: "plain-process"},
				{name: "perturbed-schedule", env: []string{hooks, fmt.Sprintf("VERIF_HOOK_SEED=%d", rng.Int63()), "GOMAXPROCS=2"}},
				{name: "restarts-in-process@" + rs, args: []string{"-restarts", rs}},
				{name: "restart-after-every-block", args: []string{"-restarts", "all"}},
				// consensus runs ahead of the executor: up to 8 blocks are queued in the executor's stages at once (the
				// signature stage works on later blocks while the execute-and-persist stage is busy), persists slowed down
				{name: "pipelined-x8", args: []string{"-pipeline", "8"}, env: []string{"VERIF_HOOKS=ledger.persist.state.begin=sleep:30000:0.7,ledger.persist.chain.begin=sleep:20000:0.5", fmt.Sprintf("VERIF_HOOK_SEED=%d", rng.Int63())}},
				{name: fmt.Sprintf("restart-new-process@1,%d,%d", split1, split2), procs: [][2]uint64{{1, 1}, {2, split1}, {split1 + 1, split2}, {split2 + 1, 0}}},
				{name: fmt.Sprintf("repeat-x%d", nrep), repeats: nrep},
			}
			results := map[string]*replayResult{"R0-generator": {Name: "R0-generator", Heights: r0, Dump: r0dump}}
			specArgs := map[string][]string{}
			specProcs := map[string][][2]uint64{}
			for _, sp := range specs {
				specArgs[sp.name] = sp.args
				specProcs[sp.name] = sp.procs
			}
			var order []string
			order = append(order, "R0-generator")
			for si, sp := range specs {
				dir := filepath.Join(caseDir, fmt.Sprintf("rep%d", si))
				outF := filepath.Join(caseDir, fmt.Sprintf("rep%d.json", si))
				procs := sp.procs
				if procs == nil {
					procs = [][2]uint64{{0, 0}}
				}
				var all []*replayResult
				for pi, pr := range procs {
					cargs := []string{"det01-replay", "-hist", histFile, "-dir", dir, "-out", outF, "-fromh", fmt.Sprint(pr[0]), "-toh", fmt.Sprint(pr[1])}
					if sp.repeats > 1 {
						cargs = append(cargs, "-repeats", fmt.Sprint(sp.repeats))
					}
					cargs = append(cargs, sp.args...)
					cmd := exec.Command(self, cargs...)
					cmd.Env = append(os.Environ(), sp.env...)
					w.Step(fmt.Sprintf("replica %s process %d", sp.name, pi))
					outb, err := cmd.CombinedOutput()
					if err != nil {
						tail := string(outb)
						if len(tail) > 1500 {
							tail = tail[len(tail)-1500:]
						}
						w.Violation("replica:process-died:"+strings.SplitN(sp.name, "@", 2)[0], fmt.Sprintf("replica %s died: %v\n%s", sp.name, err, tail), map[string]interface{}{"replica": sp.name})
						break
					}
					f, err := os.Open(outF)
					if err != nil {
						break
					}
					sc := bufio.NewScanner(f)
					sc.Buffer(make([]byte, 1<<20), 256<<20)
					k := 0
					for sc.Scan() {
						rr := &replayResult{}
						if json.Unmarshal(sc.Bytes(), rr) == nil {
							if sp.repeats > 1 {
								rr.Name = fmt.Sprintf("%s#%d", sp.name, k)
								results[rr.Name] = rr
								order = append(order, rr.Name)
							} else {
								all = append(all, rr)
							}
							k++
						}
					}
					f.Close()
				}
				if sp.repeats <= 1 && len(all) > 0 {
					merged := &replayResult{Name: sp.name}
					for _, rr := range all {
						merged.Heights = append(merged.Heights, rr.Heights...)
						merged.Dump = rr.Dump
						if rr.Err != "" {
							merged.Err = rr.Err
						}
					}
					results[sp.name] = merged
					order = append(order, sp.name)
				}
				os.RemoveAll(dir)
			}
			// ---- compare
			ref := results["R0-generator"]
			w.Count("replicas_compared", int64(len(order)))
			for _, name := range order[1:] {
				rr := results[name]
				kind := strings.SplitN(strings.SplitN(name, "@", 2)[0], "#", 2)[0]
				if strings.HasPrefix(kind, "repeat-x") {
					kind = "repeat"
				}
				if rr.Err != "" {
					w.Violation("replica:error:"+kind, fmt.Sprintf("replica %s: %s", name, rr.Err), map[string]interface{}{"replica": name})
					continue
				}
				if len(rr.Heights) != len(ref.Heights) {
					w.Violation("replica:height-count:"+kind, fmt.Sprintf("replica %s executed %d blocks, generator %d", name, len(rr.Heights), len(ref.Heights)), nil)
					continue
				}
				diverged := false
				for i := range ref.Heights {
					x, y := ref.Heights[i], rr.Heights[i]
					w.Count("heights_compared", 1)
					field, xv, yv := "", "", ""
					switch {
					case x.Meta != y.Meta:
						field, xv, yv = "interchain-meta", x.Meta, y.Meta
					case strings.Join(x.Receipts, ",") != strings.Join(y.Receipts, ","):
						field = "receipt"
						for j := range x.Receipts {
							if j < len(y.Receipts) && x.Receipts[j] != y.Receipts[j] {
								d := ""
								if int(x.H-2) < len(descs) && j < len(descs[x.H-2]) {
									d = descs[x.H-2][j]
								}
								xv, yv = fmt.Sprintf("receipt %d of %s: %s", j, d, x.Rets[j]), y.Rets[j]
								break
							}
						}
					case x.State != y.State:
						field, xv, yv = "state-root", x.State, y.State
					case x.TxRoot != y.TxRoot:
						field, xv, yv = "tx-root", x.TxRoot, y.TxRoot
					case x.RcRoot != y.RcRoot:
						field, xv, yv = "receipt-root", x.RcRoot, y.RcRoot
					case x.ToRoot != y.ToRoot:
						field, xv, yv = "timeout-root", x.ToRoot, y.ToRoot
					case x.Hash != y.Hash:
						field, xv, yv = "block-hash", x.Hash, y.Hash
					}
					if field != "" {
						d := []string{}
						if int(x.H-2) < len(descs) {
							d = descs[x.H-2]
						}
						sub := ""
						if field == "interchain-meta" {
							// which part of the metadata differs
							for _, part := range []string{"counter{", "timeout{", "l2roots[", "multitx{"} {
								xi, yi := strings.Index(x.Meta, part), strings.Index(y.Meta, part)
								xe, ye := strings.IndexAny(x.Meta[xi:], "}]"), strings.IndexAny(y.Meta[yi:], "}]")
								_ = xe
								_ = ye
							}
							xs, ys := strings.Split(x.Meta, "} "), strings.Split(y.Meta, "} ")
							names := []string{"counter", "timeout", "l2roots+multitx"}
							for pi := range xs {
								if pi < len(ys) && xs[pi] != ys[pi] && pi < len(names) {
									sub = ":" + names[pi]
									break
								}
							}
						}
						if field == "state-root" || field == "receipt" {
							xv += stateDiffDebug(self, caseDir, histFile, x.H, specArgs[name], specProcs[name])
						}
						w.Violation(fmt.Sprintf("diverge:%s%s:%s", field, sub, kind),
							fmt.Sprintf("height %d field %s differs between the generating replica and replica %s:\n  R0:      %s\n  replica: %s\n  block txs: %s", x.H, field, name, xv, yv, strings.Join(d, " | ")),
							map[string]interface{}{"replica": name, "height": x.H, "field": field, "r0": xv, "other": yv, "block": d, "opts": opts, "fixture_blocks": fixtureBlocks})
						diverged = true
						break
					}
				}
				if !diverged && rr.Dump != ref.Dump {
					w.Violation("diverge:final-state-dump:"+kind, fmt.Sprintf("all blocks agree but the final state store of replica %s differs from the generating replica", name), map[string]interface{}{"replica": name})
				}
			}
			var ks []string
			for k, n := range g.kinds {
				if n > 0 {
					ks = append(ks, k)
				}
			}
			sort.Strings(ks)
			if id == a.From {
				n := len(descs)
				if n > fixtureBlocks+6 {
					n = fixtureBlocks + 6
				}
				w.Sample(map[string]interface{}{"case": id, "opts": opts, "blocks_after_fixture": descs[fixtureBlocks:n], "replicas": order})
			}
			w.CaseDone(fmt.Sprintf("%s|audit%v|%s", opts.ProofType, !opts.NoAudit, strings.Join(ks, ",")), len(ks) >= 8)
		})
	}
	w.End()
	_ = rand.Int
	return 0
}

// stateDiffDebug re-runs the history plainly and with the diverging replica's restart placement,
// dumps the state store after block h in both and returns the keys that differ (witness detail).
func stateDiffDebug(self, caseDir, histFile string, h uint64, args []string, procs [][2]uint64) string {
	run := func(tag string, args []string, procs [][2]uint64) map[string]string {
		dir := filepath.Join(caseDir, "dbg-"+tag)
		out := filepath.Join(caseDir, "dbg-"+tag+".json")
		dump := filepath.Join(caseDir, "dbg-"+tag+".dump")
		defer os.RemoveAll(dir)
		if procs == nil {
			procs = [][2]uint64{{0, 0}}
		}
		for _, pr := range procs {
			if pr[0] > h {
				break
			}
			cargs := append([]string{"det01-replay", "-hist", histFile, "-dir", dir, "-out", out, "-fromh", fmt.Sprint(pr[0]), "-toh", fmt.Sprint(pr[1]), "-dumpat", fmt.Sprint(h), "-dumpout", dump}, args...)
			exec.Command(self, cargs...).Run()
		}
		m := map[string]string{}
		b, _ := ioutil.ReadFile(dump)
		json.Unmarshal(b, &m)
		return m
	}
	a := run("plain", nil, nil)
	b := run("variant", args, procs)
	var diffs []string
	for k, v := range a {
		if b[k] != v {
			diffs = append(diffs, fmt.Sprintf("    key %s\n      plain:   %.300s\n      variant: %.300s", k, v, b[k]))
		}
	}
	for k, v := range b {
		if _, ok := a[k]; !ok {
			diffs = append(diffs, fmt.Sprintf("    key %s only in variant: %.300s", k, v))
		}
	}
	sort.Strings(diffs)
	if len(diffs) > 8 {
		diffs = diffs[:8]
	}
	return fmt.Sprintf("\n  state keys differing after block %d (plain replay vs this replica's restart placement):\n%s", h, strings.Join(diffs, "\n"))
}
