package main

import (
	"bytes"
	"fmt"
	"math/rand"
	"os"
	"path/filepath"
	"sort"
	"strings"

	"github.com/meshplus/bitxhub-kit/types"
	"github.com/meshplus/bitxhub-model/pb"
	"github.com/meshplus/bitxhub/verif/harness"
	"github.com/meshplus/bitxhub/verif/model"
	"github.com/meshplus/bitxhub/verif/vlog"
)

func init() {
	workloads["ixc02"] = func(a []string) int { return ixcWorkload("C02", a) }
	workloads["ixc04"] = func(a []string) int { return ixcWorkload("C04", a) }
	workloads["ixc06"] = func(a []string) int { return ixcWorkload("C06", a) }
}

// ixEvent is one generated transaction of the interchain workload (replayable description).
type ixEvent struct {
	Kind    string `json:"kind"` // req|rcpS|rcpF|rcpR|transfer|restart
	From    string `json:"from,omitempty"`
	To      string `json:"to,omitempty"`
	Index   uint64 `json:"index,omitempty"`
	Timeout int64  `json:"timeout,omitempty"`
	Usable  bool   `json:"dst_usable,omitempty"`
	NoChain bool   `json:"dst_chain_missing,omitempty"`
	Poor    bool   `json:"sender_cannot_pay,omitempty"` // sent by an account without funds: runs, then fails at the fee
}

// deliveryChainOf: whose delivery set an IBTP for this service belongs to - the appchain, or the union pier
// when the service lives on another BitXHub.
func deliveryChainOf(full string) string {
	p := strings.Split(full, ":")
	if len(p) == 3 && p[0] != harness.BxhID {
		return "default_union_pier_id"
	}
	return chainOf(full)
}

func chainOf(full string) string {
	p := strings.Split(full, ":")
	if len(p) != 3 {
		return ""
	}
	return p[1]
}

var fixtureDir string

// ensureFixture builds the standard world once per worker process (from /repo's current tree).
func ensureFixture(work string, o harness.Options) (string, error) {
	key := fmt.Sprintf("fx-%s-%v-%d", o.ProofType, o.NoAudit, o.GasPrice)
	dir := filepath.Join(work, key)
	if _, err := os.Stat(dir); err == nil {
		return dir, nil
	}
	w, err := harness.BuildStandard(dir, o)
	if err != nil {
		return "", err
	}
	// one service registered as unordered ("batch"): used as a source only - for an unordered destination the
	// contract deliberately skips the request index check, which is outside what C02 states for ordered pairs
	if err := w.RegisterService(harness.ChainAdmin(harness.ChainC), harness.ChainC, "s3", false, ""); err != nil {
		w.R.Close()
		os.RemoveAll(dir)
		return "", err
	}
	// a service whose id contains the '-' that also separates the parts of a transaction id
	if err := w.RegisterService(harness.ChainAdmin(harness.ChainC), harness.ChainC, "s-4", true, ""); err != nil {
		w.R.Close()
		os.RemoveAll(dir)
		return "", err
	}
	// the other BitXHub: requests towards it are accepted and time out like any other (its receipts would
	// need its validators' signatures, which this workload does not produce)
	if err := registerHub(w); err != nil {
		w.R.Close()
		os.RemoveAll(dir)
		return "", err
	}
	w.R.Close()
	return dir, nil
}

type ixRun struct {
	prop   string
	w      *vlog.W
	world  *harness.World
	opts   harness.Options
	dir    string
	m      *model.Ix
	rng    *rand.Rand
	blocks [][]ixEvent
	lastSt map[string]int
	finalH map[string]uint64
	viol   func(prop, sig, detail string)
	nEvAt  map[string]int // accepted events per id in the current block
}

var ixServices = []string{
	harness.FullID(harness.ChainA, "s1"), harness.FullID(harness.ChainA, "s2"),
	harness.FullID(harness.ChainB, "s1"), harness.FullID(harness.ChainB, "s2"),
	harness.FullID(harness.ChainC, "s1"), harness.FullID(harness.ChainC, "s2"),
}

type ixPairDef struct {
	from, to string
	usable   bool
	noChain  bool // the destination appchain is not registered: its receipts cannot be proven
}

func ixPairs(rng *rand.Rand) []ixPairDef {
	all := []ixPairDef{
		{ixServices[0], ixServices[2], true, false}, {ixServices[2], ixServices[0], true, false}, // both directions of one pair
		{ixServices[0], ixServices[3], true, false}, {ixServices[1], ixServices[4], true, false}, {ixServices[5], ixServices[2], true, false},
		{ixServices[0], harness.FullID(harness.ChainB, "ghost"), false, false}, // destination service does not exist
		{ixServices[4], harness.FullID("nochain", "s1"), false, true},          // destination chain does not exist
		{ixServices[1], ixServices[1], true, false},                            // a service addressing itself: source and destination record are one
		{ixServices[2], ixServices[3], true, false},                            // two services of one chain
		{harness.FullID(harness.ChainC, "s3"), ixServices[2], true, false},     // the source is registered as unordered: its receipts are index-checked all the same
		{harness.FullID(harness.ChainC, "s-4"), ixServices[1], true, false},    // a '-' inside the source service id
		{ixServices[0], hubID + ":cX:sY", true, true},                          // towards a service of the other BitXHub: requests only (receipts lack its validators' signatures)
		{ixServices[2], hubID + ":cX:mint,burn,swap", true, true},              // the same with a service id that contains the separator of the timeout lists: refused at the door
	}
	n := 3 + rng.Intn(4)
	rng.Shuffle(len(all), func(i, j int) { all[i], all[j] = all[j], all[i] })
	return all[:n]
}

func (ir *ixRun) genBlock(pairs []ixPairDef) []ixEvent {
	r := ir.rng
	var evs []ixEvent
	n := r.Intn(6)
	if r.Intn(10) == 0 {
		n = 8 + r.Intn(20)
	}
	// local copies of counters so that several IBTPs of one block can be consecutive
	req := map[string]uint64{}
	rcp := map[string]uint64{}
	for _, p := range pairs {
		k := p.from + "|" + p.to
		if pp := ir.m.Pairs[k]; pp != nil {
			req[k], rcp[k] = pp.Req, pp.Rcp
		}
	}
	timeouts := []int64{0, 1, 1, 2, 2, 3, 3, 5, 7, 1 << 31, 1 << 62, (1 << 63) - 1, -1}
	for i := 0; i < n; i++ {
		p := pairs[r.Intn(len(pairs))]
		k := p.from + "|" + p.to
		x := r.Intn(100)
		switch {
		case x < 40: // request
			idx := req[k] + 1
			switch y := r.Intn(12); {
			case y == 0:
				idx = req[k] // duplicate
			case y == 1:
				idx = req[k] + 2 + uint64(r.Intn(3)) // future
			case y == 2:
				idx = 0
			case y == 3:
				idx = 1 << 63
			}
			poor := idx == req[k]+1 && r.Intn(14) == 0 // the next valid request, from a sender who cannot pay for it
			if idx == req[k]+1 && !poor {
				req[k]++
			}
			evs = append(evs, ixEvent{Kind: model.KReq, From: p.from, To: p.to, Index: idx, Timeout: timeouts[r.Intn(len(timeouts))], Usable: p.usable, NoChain: p.noChain, Poor: poor})
		case x < 85: // receipt
			idx := rcp[k] + 1
			switch y := r.Intn(12); {
			case y == 0:
				idx = rcp[k]
			case y == 1:
				idx = rcp[k] + 2
			case y == 2:
				idx = req[k] + 1 // for a request never made
			}
			kind := []string{model.KRcpSuccess, model.KRcpSuccess, model.KRcpFailure, model.KRcpFailure, model.KRcpRollbk}[r.Intn(5)]
			evs = append(evs, ixEvent{Kind: kind, From: p.from, To: p.to, Index: idx, Usable: p.usable, NoChain: p.noChain})
			if idx == rcp[k]+1 && idx <= req[k] {
				rcp[k]++ // guess: accepted (if the status forbids it, the next one simply becomes a future index)
			}
		default:
			evs = append(evs, ixEvent{Kind: "transfer"})
		}
	}
	return evs
}

func (ir *ixRun) universeIDs() []string {
	var ids []string
	for id := range ir.m.Txs {
		ids = append(ids, id)
	}
	sort.Strings(ids)
	return ids
}

// runBlock executes one generated block and runs the oracles.
func (ir *ixRun) runBlock(evs []ixEvent) error {
	w := ir.world
	h := w.R.Height() + 1
	ir.m.BeginBlock(h)
	var txs []pb.Transaction
	type sub struct {
		ev     ixEvent
		accept bool
		why    string
		isIBTP bool
	}
	var subs []sub
	ir.nEvAt = map[string]int{}
	pier := harness.User(ir.rng.Intn(3))
	for _, ev := range evs {
		switch ev.Kind {
		case "transfer":
			txs = append(txs, w.Transfer(harness.User(3), harness.User(0).Addr, "1"))
			subs = append(subs, sub{ev: ev})
		default:
			typ := map[string]pb.IBTP_Type{model.KReq: pb.IBTP_INTERCHAIN, model.KRcpSuccess: pb.IBTP_RECEIPT_SUCCESS, model.KRcpFailure: pb.IBTP_RECEIPT_FAILURE, model.KRcpRollbk: pb.IBTP_RECEIPT_ROLLBACK}[ev.Kind]
			ib := harness.MkIBTP(ev.From, ev.To, ev.Index, typ, ev.Timeout)
			if strings.Contains(ev.From+ev.To, ",") {
				// ids of open transactions are kept in comma separated lists: such an id is not a valid service id
				txs = append(txs, w.IBTPTx(pier, ib, []byte("proof")))
				subs = append(subs, sub{ev: ev, accept: false, why: "service id contains a comma", isIBTP: true})
				ir.w.Count("ibtp_with_comma_in_service_id", 1)
				continue
			}
			if ev.Poor {
				// the contracts accept it, then the fee cannot be paid: FAILED receipt, everything reverted - for
				// the model this request was never made
				txs = append(txs, w.IBTPTx(harness.DetKey("empty-account"), ib, []byte("proof")))
				subs = append(subs, sub{ev: ev, accept: false, why: "sender cannot pay the fee", isIBTP: true})
				ir.w.Count("ibtp_from_sender_without_funds", 1)
				continue
			}
			txs = append(txs, w.IBTPTx(pier, ib, []byte("proof")))
			mi := model.IxIBTP{From: ev.From, To: ev.To, Index: ev.Index, Kind: ev.Kind, Timeout: ev.Timeout, DstUsable: ev.Usable, ProofOK: ev.Kind == model.KReq || !ev.NoChain}
			ok, why := ir.m.Submit(mi)
			if ok {
				ir.nEvAt[mi.ID()]++
			}
			subs = append(subs, sub{ev: ev, accept: ok, why: why, isIBTP: true})
		}
	}
	var before map[string][]byte
	onlyRejected := len(subs) > 0
	for _, s := range subs {
		if !s.isIBTP || s.accept {
			onlyRejected = false
		}
	}
	expired := ir.m.EndBlock()
	if len(expired) > 0 {
		onlyRejected = false // expiry legitimately rewrites transaction records
	}
	if onlyRejected && ir.prop == "C02" {
		before = w.R.DumpState()
	}
	for _, id := range expired {
		ir.nEvAt[id]++
	}
	ir.w.Step(fmt.Sprintf("exec block %d with %d txs", h, len(txs)))
	res, err := w.Exec(txs...)
	if err != nil {
		return err
	}
	ir.w.Count("blocks", 1)
	ir.w.Count("ibtp_txs", int64(len(txs)))
	// ---- (C02) receipt status of every IBTP tx equals the prediction
	acceptedIdx := map[int]sub{}
	for i, s := range subs {
		if !s.isIBTP {
			continue
		}
		ok := res.Receipts[i].Status == pb.Receipt_SUCCESS
		if s.accept {
			ir.w.Count("ibtp_accepted", 1)
			acceptedIdx[i] = s
		} else {
			ir.w.Count("ibtp_rejected", 1)
			ir.w.SetAdd("rejected_reasons", strings.Split(s.why, " index")[0])
		}
		if ok != s.accept {
			if s.accept {
				ir.viol("C02", "ibtp:valid-rejected:"+s.ev.Kind, fmt.Sprintf("block %d tx %d: %s %s->%s #%d should be accepted but was rejected: %s", h, i, s.ev.Kind, s.ev.From, s.ev.To, s.ev.Index, string(res.Receipts[i].Ret)))
			} else {
				cls := "index"
				if strings.Contains(s.why, "not allowed in status") {
					cls = "transition"
				} else if strings.Contains(s.why, "never accepted") {
					cls = "unknown-request"
				}
				prop := "C02"
				if cls == "transition" {
					prop = "C04"
				}
				ir.viol(prop, "ibtp:invalid-accepted:"+s.ev.Kind+":"+cls, fmt.Sprintf("block %d tx %d: %s %s->%s #%d must be rejected (%s) but was accepted", h, i, s.ev.Kind, s.ev.From, s.ev.To, s.ev.Index, s.why))
			}
		}
	}
	// ---- (C02) counters
	if ir.prop == "C02" {
		ics := map[string]*pb.Interchain{}
		get := func(id string) *pb.Interchain {
			if ic, ok := ics[id]; ok {
				return ic
			}
			ic := w.Interchain(id)
			if ic == nil {
				ic = &pb.Interchain{}
			}
			ics[id] = ic
			return ic
		}
		for k, p := range ir.m.Pairs {
			ft := strings.Split(k, "|")
			src, dst := get(ft[0]), get(ft[1])
			ir.w.Count("obs_counter_checks", 1)
			if src.InterchainCounter[ft[1]] != p.Req || dst.SourceInterchainCounter[ft[0]] != p.Req {
				ir.viol("C02", "counter:request", fmt.Sprintf("after block %d pair %s: %d requests accepted, InterchainCounter=%d SourceInterchainCounter=%d", h, k, p.Req, src.InterchainCounter[ft[1]], dst.SourceInterchainCounter[ft[0]]))
			}
			if src.ReceiptCounter[ft[1]] != p.Rcp || dst.SourceReceiptCounter[ft[0]] != p.Rcp {
				ir.viol("C02", "counter:receipt", fmt.Sprintf("after block %d pair %s: %d receipts finalised, ReceiptCounter=%d SourceReceiptCounter=%d", h, k, p.Rcp, src.ReceiptCounter[ft[1]], dst.SourceReceiptCounter[ft[0]]))
			}
		}
		// delivery metadata
		for chain, sl := range res.Meta.Counter {
			seen := map[uint64]bool{}
			for _, vi := range sl.Slice {
				ir.w.Count("obs_delivery_entries", 1)
				if seen[vi.Index] {
					ir.viol("C02", "delivery:listed-twice", fmt.Sprintf("block %d: tx index %d listed twice for chain %s", h, vi.Index, chain))
				}
				seen[vi.Index] = true
				s, ok := acceptedIdx[int(vi.Index)]
				if !ok {
					ir.viol("C02", "delivery:rejected-ibtp-announced", fmt.Sprintf("block %d: tx index %d is announced to chain %s but is not an accepted IBTP of this block", h, vi.Index, chain))
					continue
				}
				if chain != deliveryChainOf(s.ev.From) && chain != deliveryChainOf(s.ev.To) {
					ir.viol("C02", "delivery:wrong-chain", fmt.Sprintf("block %d: IBTP %s->%s announced to unrelated chain %s", h, s.ev.From, s.ev.To, chain))
				}
			}
		}
		for i, s := range acceptedIdx {
			if s.ev.Kind != model.KReq || !s.ev.Usable {
				continue
			}
			n := 0
			if sl := res.Meta.Counter[deliveryChainOf(s.ev.To)]; sl != nil {
				for _, vi := range sl.Slice {
					if int(vi.Index) == i {
						n++
					}
				}
			}
			if n != 1 {
				ir.viol("C02", "delivery:request-not-listed-once", fmt.Sprintf("block %d: accepted request %s->%s #%d (tx %d) listed %d times for its destination chain", h, s.ev.From, s.ev.To, s.ev.Index, i, n))
			}
			// index-tx mapping
			rc := w.R.Query(harness.AddrInterchain, "GetIBTPByID", pb.String(fmt.Sprintf("%s-%s-%d", s.ev.From, s.ev.To, s.ev.Index)), pb.Bool(true))
			if rc.Status != pb.Receipt_SUCCESS || !bytes.Equal(rc.Ret, txs[i].GetHash().Bytes()) {
				ir.viol("C02", "index-tx:mismatch", fmt.Sprintf("block %d: GetIBTPByID of accepted request tx %d does not return its tx hash (%v %x)", h, i, rc.Status, rc.Ret))
			}
		}
		if onlyRejected {
			after := w.R.DumpState()
			for _, addr := range []*types.Address{harness.AddrInterchain, harness.AddrTxMgr} {
				pre := string(addr.Bytes())
				for k, v := range after {
					if strings.HasPrefix(k, pre) && !bytes.Equal(before[k], v) {
						ir.viol("C02", "rejected:state-changed", fmt.Sprintf("block %d holds only rejected IBTPs but contract key %q changed", h, k[len(pre):]))
					}
				}
				for k := range before {
					if _, ok := after[k]; !ok && strings.HasPrefix(k, pre) {
						ir.viol("C02", "rejected:state-changed", fmt.Sprintf("block %d holds only rejected IBTPs but contract key %q was deleted", h, k[len(pre):]))
					}
				}
			}
			ir.w.Count("obs_rejected_only_blocks", 1)
		}
	}
	// ---- (C04) status machine, (C06) expiry
	for _, id := range ir.universeIDs() {
		tx := ir.m.Txs[id]
		got := w.Status(id)
		ir.w.Count("obs_status_queries", 1)
		old, seen := ir.lastSt[id]
		if !seen {
			old = model.StNone
		}
		if got != tx.Status {
			sig := fmt.Sprintf("status:%s-expected-%s", model.StName[got], model.StName[tx.Status])
			prop := "C04"
			if strings.Contains(strings.Join(tx.History, " "), "timeout") || (tx.Due != 0 && h >= tx.Due && got == model.StBeginRollback) {
				prop = "C06"
				if tx.Status == model.StFailure && got == model.StBeginRollback {
					sig = "status:FAILURE->BEGIN_ROLLBACK@timeout-height/after-failure-receipt"
				}
			}
			ir.viol(prop, sig, fmt.Sprintf("after block %d tx %s reports %s, accepted events give %s (history %v, due %d)", h, id, model.StName[got], model.StName[tx.Status], tx.History, tx.Due))
			if prop == "C06" {
				ir.viol("C04", sig, fmt.Sprintf("after block %d tx %s reports %s, accepted events give %s (history %v, due %d)", h, id, model.StName[got], model.StName[tx.Status], tx.History, tx.Due))
			}
			tx.Status = got // resync so that one defect does not cascade
		}
		if got != old {
			ir.w.SetAdd("status_edges", model.StName[old]+"->"+model.StName[got])
			n := ir.nEvAt[id]
			if n == 0 {
				n = 0
			}
			if !model.AllowedEdge(old, got, n) {
				ir.viol("C04", fmt.Sprintf("edge:%s->%s", model.StName[old], model.StName[got]), fmt.Sprintf("block %d: tx %s moved %s -> %s with %d accepted event(s) for it in this block", h, id, model.StName[old], model.StName[got], ir.nEvAt[id]))
			}
			if seen && model.IsFinal(old) {
				ir.viol("C04", "final-state-left:"+model.StName[old], fmt.Sprintf("block %d: tx %s left final status %s for %s", h, id, model.StName[old], model.StName[got]))
			}
		}
		ir.lastSt[id] = got
	}
	// expiry lists
	want := map[string][]string{}
	for _, id := range expired {
		c := chainOf(ir.m.Txs[id].From)
		want[c] = append(want[c], id)
	}
	gotAll := map[string][]string{}
	for c, sl := range res.Meta.TimeoutCounter {
		gotAll[c] = append([]string{}, sl.Slice...)
		sort.Strings(gotAll[c])
	}
	ir.w.Count("obs_timeout_blocks", 1)
	chains := map[string]bool{}
	for c := range want {
		chains[c] = true
	}
	for c := range gotAll {
		chains[c] = true
	}
	for c := range chains {
		ids := want[c]
		sort.Strings(ids)
		ir.w.Count("expired_requests", int64(len(ids)))
		wantSet := map[string]bool{}
		for _, id := range ids {
			wantSet[id] = true
		}
		gotSet := map[string]int{}
		for _, id := range gotAll[c] {
			gotSet[id]++
		}
		for _, id := range ids {
			if gotSet[id] == 0 {
				ir.viol("C06", "timeout-list:missing", fmt.Sprintf("block %d chain %s: request %s is due now without accepted receipt but is not in the timeout notifications %v", h, c, id, gotAll[c]))
			}
		}
		for id, n := range gotSet {
			if n > 1 {
				ir.viol("C06", "timeout-list:listed-twice", fmt.Sprintf("block %d chain %s: %s listed %d times", h, c, id, n))
			}
			if !wantSet[id] {
				sig := "timeout-list:unexpected"
				if tx := ir.m.Txs[id]; tx != nil {
					hist := strings.Join(tx.History, " ")
					switch {
					case strings.Contains(hist, ":FAILURE"):
						sig = "timeout-list:listed-after-failure-receipt"
					case strings.Contains(hist, ":SUCCESS"):
						sig = "timeout-list:listed-after-success-receipt"
					case tx.Due != h:
						sig = "timeout-list:wrong-height"
					}
				}
				ir.viol("C06", sig, fmt.Sprintf("block %d chain %s: %s is in the timeout notifications but is not due now without receipt (model: %+v)", h, c, id, ir.m.Txs[id]))
			}
		}
	}
	_ = res
	return nil
}

func ixcWorkload(prop string, args []string) int {
	a := parseArgs("ixc", args, nil)
	w := vlog.Open(a.Out)
	for id := a.From; id < a.To; id++ {
		rng := vlog.CaseRand(a.Seed, "ixc", id) // C02, C04, C06 see the same histories
		if prop == "C04" && id%6 == 5 {
			// every sixth C04 case: transactions between two BitXHubs, seen from the source hub
			guard(w, "hub04", func() { hub04Case(w, a, id, rng) })
			continue
		}
		opts := harness.Options{NoAudit: rng.Intn(2) == 0}
		if prop == "C06" && id%3 == 1 {
			// every third C06 case: one-to-many groups, the timeout of the group as a whole
			w.CaseStart(id, map[string]interface{}{"opts": opts, "kind": "one-to-many groups"})
			guard(w, "grp06", func() { grp05Case(w, a, id, vlog.CaseRand(a.Seed, "grp05", id), opts, "C06") })
			continue
		}
		ixcCase(prop, w, a, id, rng, opts)
	}
	w.End()
	return 0
}

// ixcCase runs one generated interchain history through the real executor. prop selects which of the oracles'
// verdicts count: C02 / C04 / C06 (and C05 for the group notifications), or C10 for the root monitor alone.
func ixcCase(prop string, w *vlog.W, a *wargs, id int, rng *rand.Rand, opts harness.Options) {
	w.CaseStart(id, map[string]interface{}{"no_audit": opts.NoAudit})
	guard(w, "ixc", func() {
		fx, err := ensureFixture(a.Work, opts)
		if err != nil {
			w.Inconclusive("fixture: " + err.Error())
			w.CaseDone("fixture-error", false)
			return
		}
		dir := filepath.Join(a.Work, fmt.Sprintf("case-%d", id))
		defer os.RemoveAll(dir)
		if err := harness.CopyDir(fx, dir); err != nil {
			w.Inconclusive(err.Error())
			return
		}
		world, err := harness.OpenWorld(dir, opts)
		if err != nil {
			w.Violation("open:error", err.Error(), nil)
			w.CaseDone("open-error", false)
			return
		}
		seenSig := map[string]bool{}
		unordCase := prop == "C02" && id%20 == 19
		ir := &ixRun{prop: prop, w: w, world: world, opts: opts, dir: dir, m: model.NewIx(), rng: rng, lastSt: map[string]int{}, finalH: map[string]uint64{}}
		ir.viol = func(p, sig, detail string) {
			if p != prop {
				w.Count("other_property_observations:"+p, 1)
				return
			}
			if unordCase {
				w.Count("unordered_destination_observations", 1)
				return
			}
			if seenSig[sig] {
				return
			}
			seenSig[sig] = true
			w.Violation(sig, detail, map[string]interface{}{"blocks": ir.blocks, "no_audit": opts.NoAudit})
		}
		pairs := ixPairs(rng)
		// C02 only, every 20th case: the single pair whose DESTINATION is the service registered as unordered.
		// For such a destination the interchain contract skips the request index check by design ("batch"
		// services); C02 is stated for ordered pairs, so what the oracle sees there is counted as an
		// observation and decides nothing (DESIGN.md 9.3) - the case still runs under the race detector
		if unordCase {
			pairs = []ixPairDef{{ixServices[0], harness.FullID(harness.ChainC, "s3"), true, false}}
		}
		nBlocks := 25 + rng.Intn(15)
		shape := map[string]bool{}
		for b := 0; b < nBlocks; b++ {
			if rng.Intn(10) == 0 && b > 0 {
				ir.blocks = append(ir.blocks, []ixEvent{{Kind: "restart"}})
				world.R.Close()
				world, err = harness.OpenWorld(dir, opts)
				if err != nil {
					w.Violation("reopen:error", err.Error(), nil)
					break
				}
				ir.world = world
				shape["restart"] = true
				w.Count("restarts", 1)
			}
			evs := ir.genBlock(pairs)
			ir.blocks = append(ir.blocks, evs)
			if err := ir.runBlock(evs); err != nil {
				w.Violation("exec:error", err.Error(), map[string]interface{}{"blocks": ir.blocks})
				break
			}
			// the delivery sets the real router builds for this block (live and replay path)
			for _, f := range ir.world.R.TakeRouterFindings() {
				p := map[string]string{"transactions": "C02", "roots": "C02", "height": "C02", "timeout": "C06", "multitx": "C05"}[f.Part]
				ir.viol(p, "delivery:"+f.Sig, f.Detail)
			}
			w.Count("router_blocks_checked", 1)
			// what the state root of this block stands for (harness/rootmon.go)
			for _, f := range ir.world.R.TakeRootFindings() {
				ir.viol("C10", "root:block:"+f.Sig, f.Detail)
			}
		}
		w.Count("root_blocks_checked", int64(world.R.RootBlocks))
		w.Count("root_journals_compared", int64(world.R.RootJournals))
		w.Count("root_journal_accounts", int64(world.R.RootAccounts))
		world.R.Close()
		cnt := map[string]int{}
		for _, tx := range ir.m.Txs {
			var hs []string
			for _, s := range tx.History {
				hs = append(hs, s[strings.Index(s, ":")+1:])
			}
			cnt[strings.Join(hs, ">")]++
		}
		var sh []string
		for k := range shape {
			sh = append(sh, k)
		}
		for k, n := range cnt {
			sh = append(sh, fmt.Sprintf("%s x%d", k, n))
		}
		sort.Strings(sh)
		if id == a.From {
			n := len(ir.blocks)
			if n > 8 {
				n = 8
			}
			w.Sample(map[string]interface{}{"case": id, "first_blocks": ir.blocks[:n]})
		}
		w.CaseDone(strings.Join(sh, "|"), len(ir.m.Txs) > 0)
	})
}
