package main

import (
	"bytes"
	"fmt"
	"github.com/ethereum/go-ethereum/common"
	ethcrypto "github.com/ethereum/go-ethereum/crypto"
	"math/big"
	"math/rand"
	"os"
	"path/filepath"
	"runtime"
	"strings"

	"github.com/meshplus/bitxhub-kit/types"
	"github.com/meshplus/bitxhub-model/pb"
	"github.com/meshplus/bitxhub/verif/harness"
	"github.com/meshplus/bitxhub/verif/vlog"
)

func init() { workloads["total08"] = total08Workload }

// idPool returns identifiers of objects that exist in the extended fixture.
func idPool() []string {
	p := []string{harness.ChainA, harness.ChainB, harness.ChainC, "chainW", "chainT", "chainU", "nochain", harness.BxhID}
	for _, c := range []string{harness.ChainA, harness.ChainB, harness.ChainC, "chainW"} {
		for _, s := range []string{"s1", "s2"} {
			p = append(p, harness.FullID(c, s), c+":"+s)
		}
		p = append(p, harness.ChainAdmin(c).Addr.String())
		for i := 0; i < 4; i++ {
			p = append(p, fmt.Sprintf("%s-%d", harness.ChainAdmin(c).Addr.String(), i)) // proposal ids
		}
	}
	for i := 0; i < 4; i++ {
		p = append(p, harness.AdminKey(i).Addr.String(), harness.User(i).Addr.String())
	}
	p = append(p, harness.FullID(harness.ChainA, "s1")+"-"+harness.FullID(harness.ChainB, "s1")+"-1")
	// address-like strings that are valid hex and not 20 bytes long, without prefix, too long, odd length
	p = append(p, "0x1234", "0x", "1234", "0x00000000000000000000000000000000000000a2ff", "0xabc", "0X00000000000000000000000000000000000000A2")
	p = append(p, "0x00000000000000000000000000000000000000a2", "appchain_mgr", "service_mgr", "rule_mgr", "role_mgr", "node_mgr", "governanceAdmin", "appchainAdmin", "auditAdmin", "vpNode", "nvpNode")
	return p
}

func randArg(rng *rand.Rand, pool []string) *pb.Arg {
	switch rng.Intn(9) {
	case 0:
		return pb.String(pool[rng.Intn(len(pool))])
	case 1:
		return pb.Uint64(rng.Uint64())
	case 2:
		return pb.Int64(-rng.Int63())
	case 3:
		return pb.Bool(rng.Intn(2) == 0)
	case 4:
		b := make([]byte, rng.Intn(64))
		rng.Read(b)
		return pb.Bytes(b)
	case 5:
		return &pb.Arg{Type: pb.Arg_U64, Value: []byte("not-a-number")}
	case 6:
		return &pb.Arg{Type: pb.Arg_Type(rng.Intn(12)), Value: []byte(pool[rng.Intn(len(pool))])}
	case 7:
		return pb.Float64(rng.NormFloat64() * 1e10)
	default:
		return pb.String(strings.Repeat("A", 1+rng.Intn(5000)))
	}
}

func mutateBytes(rng *rand.Rand, b []byte) []byte {
	b = append([]byte{}, b...)
	if len(b) == 0 {
		return []byte{byte(rng.Intn(256))}
	}
	for n := 1 + rng.Intn(3); n > 0; n-- {
		switch rng.Intn(5) {
		case 0:
			b[rng.Intn(len(b))] ^= byte(1 << uint(rng.Intn(8)))
		case 1:
			b = b[:rng.Intn(len(b)+1)]
			if len(b) == 0 {
				return b
			}
		case 2:
			i := rng.Intn(len(b))
			b = append(b[:i], append([]byte{byte(rng.Intn(256))}, b[i:]...)...)
		case 3:
			b[rng.Intn(len(b))] = 0xff
		case 4:
			i, j := rng.Intn(len(b)), rng.Intn(len(b))
			b[i], b[j] = b[j], b[i]
		}
	}
	return b
}

var weirdIDs = []string{"", ":", "::", ":::", "a:b", "a:b:c:d", "1356:chainA", "1356::s1", ":chainA:s1", "1356:chainA:s1:", "-", "--", "a-b", "1356:chainA:s1-1356:chainB:s1", "1356:chainA:s1-x-y-z", "9999:x:y", "1356:1356:svc", "\x00:\x00:\x00"}

type t08 struct {
	w          *vlog.W
	world      *harness.World
	rng        *rand.Rand
	surf       []harness.Method
	pool       []string
	idx        map[string]uint64 // next request index per valid pair
	kinds      map[string]int
	ethFunded  bool
	ethTargets []*types.Address
}

func (t *t08) sender() *harness.Key {
	switch t.rng.Intn(6) {
	case 0:
		return harness.AdminKey(t.rng.Intn(4))
	case 1:
		return harness.ChainAdmin([]string{harness.ChainA, harness.ChainB, "chainW"}[t.rng.Intn(3)])
	case 2:
		return harness.Pauper()
	default:
		return harness.User(t.rng.Intn(4))
	}
}

// genTx produces one hostile (or neighbour) transaction and a short tag describing it.
func (t *t08) genTx() (pb.Transaction, string) {
	r, w := t.rng, t.world
	k := t.sender()
	x := r.Intn(100)
	switch {
	case x < 12: // valid neighbours
		switch r.Intn(3) {
		case 0:
			return w.Transfer(k, harness.User(r.Intn(4)).Addr, fmt.Sprint(r.Intn(1000))), "ok:transfer"
		case 1:
			return w.BVM(k, harness.AddrStore, "Set", pb.String(fmt.Sprintf("k%d", r.Intn(5))), pb.String("v")), "ok:store"
		default:
			from, to := harness.FullID(harness.ChainA, "s1"), harness.FullID(harness.ChainB, "s1")
			t.idx[from+to]++
			return w.IBTPTx(k, harness.MkIBTP(from, to, t.idx[from+to], pb.IBTP_INTERCHAIN, int64(r.Intn(4))), []byte("p")), "ok:ibtp"
		}
	case x < 15: // aimed: a well-formed call by the account that is allowed to make it, with a malformed address where a
		// contract address belongs (hex that is not 20 bytes, no prefix, too long, odd length): passes every
		// check up to the place where the contract looks the account up
		bad := []string{"0x1234", "0x", "1234", "0x00000000000000000000000000000000000000a2ff", "0xabc", "abcd", "0x00"}[r.Intn(7)]
		chain := []string{harness.ChainA, harness.ChainB, "chainW"}[r.Intn(3)]
		ca := harness.ChainAdmin(chain)
		switch r.Intn(4) {
		case 0:
			return w.BVM(ca, harness.AddrRule, "RegisterRule", pb.String(chain), pb.String(bad), pb.String("url")), "aimed:malformed-address:RuleManager.RegisterRule"
		case 1:
			return w.BVM(ca, harness.AddrRule, "UpdateMasterRule", pb.String(chain), pb.String(bad), pb.String("reason")), "aimed:malformed-address:RuleManager.UpdateMasterRule"
		case 2:
			nk := harness.User(r.Intn(4))
			return w.BVM(nk, harness.AddrAppchain, "RegisterAppchain", pb.String(fmt.Sprintf("chainZ%d", r.Intn(1000))), pb.String(fmt.Sprintf("nameZ%d", r.Intn(100000))), pb.Bytes(nil), pb.String("ETH"), pb.Bytes(nil), pb.String("123"), pb.String("desc"),
				pb.String(bad), pb.String("url"), pb.String(nk.Addr.String()), pb.String("reason")), "aimed:malformed-address:AppchainManager.RegisterAppchain"
		default:
			return w.BVM(harness.User(r.Intn(4)), types.NewAddressByStr("0x0000000000000000000000000000000000000020"), "RegisterDapp", pb.String(fmt.Sprintf("dapp%d", r.Intn(100000))), pb.String("tool"), pb.String("desc"), pb.String("url"),
				pb.String(bad), pb.String(""), pb.String("reason")), "aimed:malformed-address:DappManager.RegisterDapp"
		}
	case x < 50: // dispatch surface
		m := t.surf[r.Intn(len(t.surf))]
		var args []*pb.Arg
		tag := "surface:welltyped"
		switch y := r.Intn(10); {
		case y < 6:
			a, ok := m.WellTyped(r, t.pool)
			if !ok {
				a = []*pb.Arg{randArg(r, t.pool)}
				tag = "surface:untypable"
			}
			args = a
		case y < 8:
			tag = "surface:typeconfused"
			for i := 0; i < len(m.In); i++ {
				args = append(args, randArg(r, t.pool))
			}
		default:
			tag = "surface:wrongarity"
			n := len(m.In) + r.Intn(3) - 1
			if n < 0 {
				n = 0
			}
			if n == len(m.In) {
				n++
			}
			for i := 0; i < n; i++ {
				args = append(args, randArg(r, t.pool))
			}
		}
		if t.w != nil {
			t.w.SetAdd("methods_called", m.CName+"."+m.Name)
		}
		return w.BVM(k, types.NewAddressByStr(m.Contract), m.Name, args...), tag + ":" + m.CName + "." + m.Name
	case x < 68: // malformed IBTPs
		from, to := harness.FullID(harness.ChainA, "s1"), harness.FullID(harness.ChainB, "s1")
		if r.Intn(2) == 0 {
			from = weirdIDs[r.Intn(len(weirdIDs))]
		}
		if r.Intn(2) == 0 {
			to = weirdIDs[r.Intn(len(weirdIDs))]
		}
		if r.Intn(6) == 0 {
			from = harness.FullID("chainW", "s1") // proof decided by the first-byte rule
		}
		if r.Intn(10) == 0 {
			from = harness.FullID([]string{"chainT", "chainU"}[r.Intn(2)], "s1")
		}
		idxs := []uint64{0, 1, 2, 1 << 31, 1 << 63, ^uint64(0)}
		typ := pb.IBTP_Type(r.Intn(6))
		ib := harness.MkIBTP(from, to, idxs[r.Intn(len(idxs))], typ, []int64{0, 1, -1, 1 << 62, -(1 << 62)}[r.Intn(5)])
		switch r.Intn(6) {
		case 0:
			ib.Group = &pb.StringUint64Map{Keys: []string{to, "x"}, Vals: []uint64{1}}
		case 1:
			ib.Group = &pb.StringUint64Map{}
		case 2:
			ib.Group = &pb.StringUint64Map{Keys: []string{to, harness.FullID(harness.ChainC, "s1")}, Vals: []uint64{1, 1}}
		}
		if r.Intn(5) == 0 {
			ib.Extra = mutateBytes(r, []byte{8, 1})
		}
		if r.Intn(8) == 0 {
			ib.Payload = nil
		}
		proof := []byte{byte(r.Intn(2)), 7}
		var ph []byte
		switch r.Intn(5) {
		case 0:
			proof = nil
		case 1:
			ph = []byte("not the hash")
		case 2:
			proof = mutateBytes(r, proof)
		}
		tx := harness.IBTPTx(k, w.Nonce(k.Addr), w.Stamp(), ib, proof, ph)
		if r.Intn(6) == 0 { // inconsistent envelope: IBTP set but payload garbage / empty
			tx.Payload = mutateBytes(r, tx.Payload)
			tx = harness.Finish(tx, k, proof)
		}
		return tx, "ibtp:malformed"
	case x < 82: // byte-level mutation of well-formed payloads
		var base *pb.BxhTransaction
		switch r.Intn(4) {
		case 0:
			base = w.Transfer(k, harness.User(0).Addr, "5")
		case 1:
			base = w.BVM(k, harness.AddrStore, "Set", pb.String("k"), pb.String("v"))
		case 2:
			base = w.BVM(k, harness.AddrGov, "Vote", pb.String(t.pool[r.Intn(len(t.pool))]), pb.String("approve"), pb.String("r"))
		default:
			base = harness.XVMDeployTx(k, w.Nonce(k.Addr), w.Stamp(), []byte("\x00asm\x01\x00\x00\x00"))
		}
		base.Payload = mutateBytes(r, base.Payload)
		if r.Intn(5) == 0 {
			base.Payload = nil
		}
		if r.Intn(5) == 0 {
			base.To = types.NewAddress(mutateBytes(r, base.To.Bytes())[:min(20, len(base.To.Bytes()))])
		}
		return harness.Finish(base, k, nil), "mutated-payload"
	case x >= 82 && x < 86: // Ethereum-format: well-formed ones around contracts without code
		if !t.ethFunded {
			t.ethFunded = true
			return w.Transfer(harness.User(0), harness.EthAddr(harness.EthKey("eth-0")), "1000000000000"), "eth:funding"
		}
		price := big.NewInt(int64(1000 + r.Intn(1000000)))
		if len(t.ethTargets) == 0 || r.Intn(3) == 0 {
			// empty init code: the created account has a code hash and no code bytes
			etx := w.Eth("eth-0", 0, 200000, price, big.NewInt(0), nil, nil)
			t.ethTargets = append(t.ethTargets, types.NewAddress(ethcrypto.CreateAddress(common.BytesToAddress(harness.EthAddr(harness.EthKey("eth-0")).Bytes()), etx.GetNonce()).Bytes()))
			return etx, "eth:deploy-empty-code"
		}
		to := t.ethTargets[r.Intn(len(t.ethTargets))]
		if r.Intn(2) == 0 {
			return harness.XVMInvokeTx(k, w.Nonce(k.Addr), w.Stamp(), to, "run", pb.String("x")), "eth:xvm-invoke-of-codeless-contract"
		}
		return w.Eth("eth-0", 0, 100000, price, big.NewInt(int64(r.Intn(2))), to, []byte{1, 2, 3, 4}), "eth:call-codeless-contract"
	case x < 93: // structure-level oddities
		switch r.Intn(5) {
		case 0: // unknown tx data type / vm type
			td := &pb.TransactionData{Type: pb.TransactionData_Type(r.Intn(5)), VmType: pb.TransactionData_VMType(r.Intn(5)), Payload: []byte("x"), Amount: "-5"}
			b, _ := td.Marshal()
			return harness.RawTx(k, w.Nonce(k.Addr), w.Stamp(), harness.AddrStore, b), "odd:txdata"
		case 1: // unknown callee
			return w.BVM(k, types.NewAddress([]byte("no-such-contract-at-all")[:20]), "Foo"), "odd:callee"
		case 2: // XVM invoke of an address without code
			return harness.XVMInvokeTx(k, w.Nonce(k.Addr), w.Stamp(), harness.User(1).Addr, "run", pb.String("x")), "odd:xvm-nocode"
		case 3: // huge amount / non numeric
			return w.Transfer(k, harness.User(1).Addr, []string{"1" + strings.Repeat("0", 60), "abc", "", "-1", "1e5"}[r.Intn(5)]), "odd:amount"
		default: // garbage wasm
			b := make([]byte, 30+r.Intn(100))
			r.Read(b)
			return harness.XVMDeployTx(k, w.Nonce(k.Addr), w.Stamp(), b), "odd:wasm"
		}
	case x < 96: // envelope fields that are simply absent on the wire (pointer fields decode to nil)
		var tx *pb.BxhTransaction
		switch r.Intn(3) {
		case 0:
			tx = w.Transfer(k, harness.User(0).Addr, "1")
		case 1:
			tx = w.BVM(k, harness.AddrStore, "Set", pb.String("k"), pb.String("v"))
		default:
			from, to := harness.FullID(harness.ChainA, "s1"), harness.FullID(harness.ChainB, "s1")
			tx = w.IBTPTx(k, harness.MkIBTP(from, to, 1<<40, pb.IBTP_INTERCHAIN, 0), []byte("p"))
		}
		tag := "absent:"
		if r.Intn(2) == 0 {
			tx.From = nil
			tag += "from"
		}
		if r.Intn(2) == 0 {
			tx.To = nil
			tag += "to"
		}
		if r.Intn(3) == 0 {
			tx.Payload = nil
			tag += "payload"
		}
		if r.Intn(3) == 0 {
			tx.Signature = nil
			tag += "sig"
		}
		if r.Intn(4) == 0 {
			tx.Timestamp, tx.Nonce = 0, 0
			tag += "zeros"
		}
		tx.TransactionHash = tx.Hash()
		return tx, tag
	case x < 98: // Ethereum-format transactions: odd but decodable
		ek := []string{"eth-0", "eth-1", "eth-never-funded"}[r.Intn(3)]
		price := big.NewInt(int64(1000 + r.Intn(1000000)))
		var to *types.Address
		if r.Intn(3) != 0 {
			to = []*types.Address{harness.User(0).Addr, harness.AddrStore, harness.AddrInterchain, harness.EthAddr(harness.EthKey("eth-receiver"))}[r.Intn(4)]
		}
		data := mutateBytes(r, []byte{0x60, 0x00, 0x60, 0x00, 0xfd, 0x5b, 0x56, 0xff})
		gas := []uint64{0, 1, 20999, 21000, 53000, 1 << 20, 1 << 62}[r.Intn(7)]
		val := []*big.Int{big.NewInt(0), big.NewInt(1), new(big.Int).Lsh(big.NewInt(1), 200)}[r.Intn(3)]
		etx := harness.EthTx(harness.EthKey(ek), []uint64{1356, 1356, 1, 0}[r.Intn(4)], uint64(r.Intn(3)), gas, price, val, to, data, w.Stamp())
		return etx, "eth:odd"
	default: // bad signatures (verified because LocalList[i] is false)
		tx := w.Transfer(k, harness.User(0).Addr, "1")
		switch r.Intn(4) {
		case 0:
			tx.Signature = nil
		case 1:
			tx.Signature = []byte{0}
		case 2:
			tx.Signature = mutateBytes(r, tx.Signature)
		default:
			tx.Signature = tx.Signature[:len(tx.Signature)/2]
		}
		tx.TransactionHash = tx.Hash()
		return tx, "badsig"
	}
}

func min(a, b int) int {
	if a < b {
		return a
	}
	return b
}

func total08Workload(args []string) int {
	a := parseArgs("total08", args, nil)
	w := vlog.Open(a.Out)
	pool := idPool()
	wedgedOnce := false
	for id := a.From; id < a.To; id++ {
		if wedgedOnce {
			// every further case would cost one more block watchdog and tell nothing new
			w.Count("cases_not_run_after_a_wedged_node", int64(a.To-id))
			break
		}
		rng := vlog.CaseRand(a.Seed, "total08", id)
		opts := harness.Options{NoAudit: rng.Intn(3) == 0, Watchdog: 0}
		if rng.Intn(2) == 0 {
			opts.ProofType = "parallel"
		}
		w.CaseStart(id, map[string]interface{}{"proof_type": opts.ProofType, "no_audit": opts.NoAudit})
		guard(w, "total08", func() {
			fxKey := harness.Options{NoAudit: opts.NoAudit}
			dirFx := filepath.Join(a.Work, fmt.Sprintf("fxe-%v", opts.NoAudit))
			if _, err := os.Stat(dirFx); err != nil {
				wf, err := harness.BuildExtended(dirFx, fxKey)
				if err != nil {
					w.Inconclusive("fixture: " + err.Error())
					w.CaseDone("fixture-error", false)
					return
				}
				wf.R.Close()
			}
			dir := filepath.Join(a.Work, fmt.Sprintf("case-%d", id))
			defer os.RemoveAll(dir)
			if err := harness.CopyDir(dirFx, dir); err != nil {
				w.Inconclusive(err.Error())
				return
			}
			world, err := harness.OpenWorld(dir, opts)
			if err != nil {
				w.Violation("open:error", err.Error(), nil)
				w.CaseDone("open-error", false)
				return
			}
			t := &t08{w: w, world: world, rng: rng, surf: world.R.Surface(), pool: pool, idx: map[string]uint64{}, kinds: map[string]int{}}
			nBlocks := 10
			shape := map[string]bool{}
			if id%10 == 7 {
				// an XVM contract (the project's own ledger test contract) stores values of growing size - up to more
				// than a fresh instance's free heap - and reads them back in later transactions
				if code, err := os.ReadFile("/repo/pkg/vm/wasm/testdata/ledger_test_gc.wasm"); err == nil {
					k := harness.User(1)
					res, err := world.Exec(harness.XVMDeployTx(k, world.Nonce(k.Addr), world.Stamp(), code))
					if err == nil && res.Receipts[0].Status == pb.Receipt_SUCCESS {
						addr := types.NewAddress(res.Receipts[0].Ret)
						for i, size := range []int{3, 70000, 300 * 1024} {
							key := fmt.Sprintf("big-%d", i)
							val := bytes.Repeat([]byte{byte('a' + i)}, size)
							w.Step(fmt.Sprintf("XVM contract stores %d bytes, then reads them back", size))
							if _, err := world.Exec(harness.XVMInvokeTx(k, world.Nonce(k.Addr), world.Stamp(), addr, "state_test_set", pb.Bytes([]byte(key)), pb.Bytes(val))); err != nil {
								break
							}
							res, err := world.Exec(harness.XVMInvokeTx(k, world.Nonce(k.Addr), world.Stamp(), addr, "state_test_get", pb.Bytes([]byte(key))))
							if err != nil {
								break
							}
							w.Count("xvm_large_state_reads", 1)
							if res.Receipts[0].Status == pb.Receipt_SUCCESS && !bytes.Equal(res.Receipts[0].Ret, val) {
								w.Count("obs_xvm_read_differs_from_write", 1)
							}
						}
						shape["xvm:large-state"] = true
					}
				}
			}
			for b := 0; b < nBlocks; b++ {
				n := 1 + rng.Intn(20)
				var txs []pb.Transaction
				var tags []string
				if rng.Intn(10) == 0 {
					// a flood: hundreds of transactions of one block fail their signature check at the same time (empty
					// signature, or no sender to check against): the per-transaction goroutines all report at once
					n = 0
					m := 150 + rng.Intn(450)
					noFrom := rng.Intn(3) == 0
					for i := 0; i < m; i++ {
						tx := world.Transfer(harness.User(rng.Intn(4)), harness.User(0).Addr, "1")
						tx.Signature = nil
						if noFrom {
							tx.From = nil
						}
						tx.TransactionHash = tx.Hash()
						txs = append(txs, tx)
					}
					tags = append(tags, fmt.Sprintf("flood:%d-unsigned-transfers(no-sender=%v)", m, noFrom))
					shape["flood:unsigned"] = true
					w.Count("txs", int64(m))
					w.Count("kind:flood", 1)
				}
				for i := 0; i < n; i++ {
					tx, tag := t.genTx()
					txs = append(txs, tx)
					tags = append(tags, tag)
					shape[strings.SplitN(tag, ":", 3)[0]+":"+strings.SplitN(tag+":", ":", 3)[1]] = true
					w.Count("txs", 1)
					w.Count("kind:"+strings.SplitN(tag, ":", 2)[0], 1)
				}
				local := make([]bool, len(txs))
				for i := range local {
					local[i] = rng.Intn(4) == 0
				}
				h0 := world.R.Height()
				w.Step(fmt.Sprintf("block %d: %s", h0+1, strings.Join(tags, " | ")))
				world.TS += 1000
				res, err := world.R.ExecBlock(txs, world.TS, local)
				w.Count("blocks", 1)
				if err == harness.ErrWatchdog {
					buf := make([]byte, 1<<20)
					nb := runtime.Stack(buf, true)
					dump := string(buf[:nb])
					parked := strings.Contains(dump, "processExecuteEvent") || strings.Contains(dump, "listenExecuteEvent")
					if parked && !strings.Contains(dump, "running]:\ngithub.com/meshplus/bitxhub/internal/executor") {
						w.Violation("wedged:no-executed-event", fmt.Sprintf("block %d: no ExecutedEvent before the watchdog and the executor is parked; txs: %s", h0+1, strings.Join(tags, " | ")), map[string]interface{}{"tags": tags})
						wedgedOnce = true
					} else {
						w.Inconclusive("watchdog fired while the executor was still running")
					}
					break
				}
				if err != nil {
					w.Violation("receipt:missing", fmt.Sprintf("block %d: %v; txs: %s", h0+1, err, strings.Join(tags, " | ")), map[string]interface{}{"tags": tags})
					break
				}
				if len(res.Receipts) != len(txs) {
					w.Violation("receipt:count", fmt.Sprintf("block %d: %d txs, %d receipts", h0+1, len(txs), len(res.Receipts)), nil)
				}
				for i, rc := range res.Receipts {
					if rc.TxHash == nil || !bytes.Equal(rc.TxHash.Bytes(), txs[i].GetHash().Bytes()) {
						w.Violation("receipt:order", fmt.Sprintf("block %d: receipt %d does not belong to tx %d (%s)", h0+1, i, i, tags[i]), nil)
					}
					if rc.Status == pb.Receipt_SUCCESS {
						w.Count("receipts_success", 1)
					} else {
						w.Count("receipts_failed", 1)
					}
				}
				if world.R.Height() != h0+1 || res.Height != h0+1 {
					w.Violation("height:not-next", fmt.Sprintf("block fed at height %d, chain height now %d, event height %d", h0+1, world.R.Height(), res.Height), nil)
				}
			}
			world.R.Close()
			var sh []string
			for k := range shape {
				sh = append(sh, k)
			}
			sortStrings(sh)
			if id == a.From {
				w.Sample(map[string]interface{}{"case": id, "tx_kinds_in_case": sh})
			}
			w.CaseDone(fmt.Sprintf("%s|audit%v|%s", opts.ProofType, !opts.NoAudit, strings.Join(sh, ",")), true)
		})
	}
	w.End()
	return 0
}
