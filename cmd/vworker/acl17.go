package main

import (
	"fmt"
	"math/rand"
	"os"
	"path/filepath"
	"sort"
	"strings"

	"github.com/meshplus/bitxhub-kit/types"
	"github.com/meshplus/bitxhub-model/pb"
	"github.com/meshplus/bitxhub/verif/harness"
	"github.com/meshplus/bitxhub/verif/model"
	"github.com/meshplus/bitxhub/verif/vlog"
)

func init() { workloads["acl17"] = acl17Workload }

// buildAclFixture = extended fixture + live victims: an open one-to-one transaction, an open
// proposal (service update pending), a registered node and a candidate admin.
func buildAclFixture(dir string, o harness.Options) error {
	w, err := harness.BuildExtended(dir, o)
	if err != nil {
		return err
	}
	defer w.R.Close()
	from, to := harness.FullID(harness.ChainA, "s1"), harness.FullID(harness.ChainB, "s1")
	if _, err := w.Exec(w.IBTPTx(harness.User(0), harness.MkIBTP(from, to, 1, pb.IBTP_INTERCHAIN, 0), []byte("p")),
		w.IBTPTx(harness.User(0), harness.MkIBTP(to, from, 1, pb.IBTP_INTERCHAIN, 0), []byte("p"))); err != nil {
		return err
	}
	// an open one-to-many group (two children begun, nothing reported)
	{
		src := harness.FullID(harness.ChainC, "s1")
		keys := []string{harness.FullID(harness.ChainA, "s2"), harness.FullID(harness.ChainB, "s2")}
		var txs []pb.Transaction
		for _, k := range keys {
			ib := harness.MkIBTP(src, k, 1, pb.IBTP_INTERCHAIN, 0)
			ib.Group = &pb.StringUint64Map{Keys: keys, Vals: []uint64{1, 1}}
			txs = append(txs, w.IBTPTx(harness.User(0), ib, []byte("p")))
		}
		res, err := w.Exec(txs...)
		if err != nil || res.Receipts[0].Status != pb.Receipt_SUCCESS || res.Receipts[1].Status != pb.Receipt_SUCCESS {
			return fmt.Errorf("open group: %v", err)
		}
	}
	// ---- further callers who are "everyone else":
	// the admin of an appchain whose id differs from chainA's only in letter case,
	twin := harness.ChainAdmin(aclTwinChain)
	frozenAdm, logoutAdm := harness.DetKey("acl-frozen-admin"), harness.DetKey("acl-logouting-admin")
	if _, err := w.Exec(w.Transfer(harness.User(0), twin.Addr, "100000000000000000000"), w.Transfer(harness.User(0), frozenAdm.Addr, "100000000000000000000"), w.Transfer(harness.User(0), logoutAdm.Addr, "100000000000000000000")); err != nil {
		return err
	}
	if err := w.RegisterAppchain(twin, aclTwinChain, "ETH", "0x00000000000000000000000000000000000000a2", nil); err != nil {
		return err
	}
	// an appchain whose id continues chainA's after a colon (appchain ids are free-form), with a service: for
	// that service chainA's admin is the admin of another appchain
	sub := harness.ChainAdmin(aclSubChain)
	if _, err := w.Exec(w.Transfer(harness.User(0), sub.Addr, "100000000000000000000")); err != nil {
		return err
	}
	if err := w.RegisterAppchain(sub, aclSubChain, "ETH", "0x00000000000000000000000000000000000000a2", nil); err == nil {
		if err := w.RegisterService(sub, aclSubChain, "s1", true, ""); err == nil {
			aclSubChainOK = true
		}
	}
	// a governance admin frozen by a vote, and one who was frozen and then asked for his own logout
	// (pending): neither is an available governance admin
	for _, k := range []*harness.Key{frozenAdm, logoutAdm} {
		rc, err := w.Call(harness.AdminKey(0), harness.AddrRole, "RegisterRole", pb.String(k.Addr.String()), pb.String("governanceAdmin"), pb.String(""), pb.String("r"))
		if err != nil || rc.Status != pb.Receipt_SUCCESS {
			return fmt.Errorf("RegisterRole: %v %s", err, string(rc.Ret))
		}
		if err := w.Approve(harness.ProposalID(rc)); err != nil {
			return err
		}
	}
	// the open proposal is created while both are still available: its recorded electorate lists them
	rc, err := w.Call(harness.ChainAdmin(harness.ChainA), harness.AddrService, "UpdateService", pb.String(harness.ChainA+":s2"), pb.String("pending-name"), pb.String("i"), pb.String(""), pb.String("d"), pb.String("r"))
	if err != nil || rc.Status != pb.Receipt_SUCCESS {
		return fmt.Errorf("open proposal: %v %s", err, string(rc.Ret))
	}
	if err := os.WriteFile(filepath.Join(dir, "open-proposal.id"), []byte(harness.ProposalID(rc)), 0644); err != nil {
		return err
	}
	for _, k := range []*harness.Key{frozenAdm, logoutAdm} {
		rc, err := w.Call(harness.AdminKey(0), harness.AddrRole, "FreezeRole", pb.String(k.Addr.String()), pb.String("r"))
		if err != nil || rc.Status != pb.Receipt_SUCCESS {
			return fmt.Errorf("FreezeRole: %v %s", err, string(rc.Ret))
		}
		if err := w.Approve(harness.ProposalID(rc)); err != nil {
			return err
		}
	}
	rc, err = w.Call(logoutAdm, harness.AddrRole, "LogoutRole", pb.String(logoutAdm.Addr.String()), pb.String("r"))
	if err != nil || rc.Status != pb.Receipt_SUCCESS {
		return fmt.Errorf("LogoutRole(self) of the frozen admin: %v %s", err, string(rc.Ret))
	}
	return nil
}

// aclTwinChain differs from chainA only in letter case.
const aclTwinChain = "CHAINA"

// aclSubChain continues chainA's id after a colon.
const aclSubChain = harness.ChainA + ":sub"

var aclSubChainOK bool

func aclPool(openProposal string) []string {
	p := idPool()
	p = append(p, openProposal, openProposal, "approve", "reject", "register", "update", "freeze", "activate", "logout", "pause", "unpause", "bind", "unbind", "clear",
		"available", "frozen", "updating", "freezing", "logouting", "registering", "unavailable", "forbidden", "APPROVED", "REJECTED", "approved", "rejected",
		harness.FullID(harness.ChainA, "s1")+"-"+harness.FullID(harness.ChainB, "s1")+"-1", harness.ChainA+":s2", harness.ChainA+":s1", "ETH", "url")
	// the "admin of another appchain" role is chainU's admin: nothing of chainU may be named as victim
	var out []string
	own := []string{harness.ChainAdmin("chainU").Addr.String(), harness.ChainAdmin(aclTwinChain).Addr.String(), harness.DetKey("acl-frozen-admin").Addr.String(), harness.DetKey("acl-logouting-admin").Addr.String(), "chainU", aclTwinChain}
	for _, x := range p {
		mine := false
		for _, o := range own {
			if strings.Contains(x, o) {
				mine = true
			}
		}
		if mine {
			continue
		}
		out = append(out, x)
	}
	return out
}

func acl17Workload(args []string) int {
	a := parseArgs("acl17", args, nil)
	w := vlog.Open(a.Out)
	for id := a.From; id < a.To; id++ {
		rng := vlog.CaseRand(a.Seed, "acl17", id)
		opts := harness.Options{NoAudit: id%2 == 1}
		w.CaseStart(id, map[string]interface{}{"opts": opts})
		guard(w, "acl17", func() { acl17Case(w, a, id, rng, opts) })
	}
	w.End()
	return 0
}

func acl17Case(w *vlog.W, a *wargs, id int, rng *rand.Rand, opts harness.Options) {
	fx := filepath.Join(a.Work, fmt.Sprintf("fxacl-%v", opts.NoAudit))
	if _, err := os.Stat(fx); err != nil {
		if err := buildAclFixture(fx, opts); err != nil {
			os.RemoveAll(fx)
			w.Inconclusive("fixture: " + err.Error())
			w.CaseDone("fixture-error", false)
			return
		}
	}
	dir := filepath.Join(a.Work, fmt.Sprintf("case-%d", id))
	defer os.RemoveAll(dir)
	if err := harness.CopyDir(fx, dir); err != nil {
		w.Inconclusive(err.Error())
		return
	}
	world, err := harness.OpenWorld(dir, opts)
	if err != nil {
		w.Violation("open:error", err.Error(), nil)
		w.CaseDone("open-error", false)
		return
	}
	defer world.R.Close()
	pidB, _ := os.ReadFile(filepath.Join(dir, "open-proposal.id"))
	pool := aclPool(string(pidB))
	seen := map[string]bool{}
	viol := func(sig, detail string) {
		if seen[sig] {
			return
		}
		seen[sig] = true
		w.Violation(sig, detail, map[string]interface{}{"opts": opts})
	}
	surf := world.R.Surface()
	var classified, unclassified []harness.Method
	for _, m := range surf {
		if m.NumOut != 1 {
			continue // not an entry point (the dispatcher refuses them)
		}
		if model.AclClass(m.CName, m.Name) != "" {
			classified = append(classified, m)
		} else {
			unclassified = append(unclassified, m)
		}
	}
	w.Count("surface_methods", int64(len(surf)))
	admins := map[string]bool{}
	for i := 0; i < 4; i++ {
		admins[harness.AdminKey(i).Addr.String()] = true
	}
	roles := map[string]*harness.Key{"outsider": harness.User(3), "other-chain-admin": harness.ChainAdmin("chainU"), "gov-admin": harness.AdminKey(1),
		"case-twin-chain-admin": harness.ChainAdmin(aclTwinChain), "frozen-gov-admin": harness.DetKey("acl-frozen-admin"), "frozen-gov-admin-with-pending-logout": harness.DetKey("acl-logouting-admin"),
		"earlier-chain-admin": harness.ChainAdmin(harness.ChainA)}
	everyoneElse := []string{"outsider", "other-chain-admin", "case-twin-chain-admin", "frozen-gov-admin", "frozen-gov-admin-with-pending-logout"}
	victimA, victimB := harness.FullID(harness.ChainA, "s1"), harness.FullID(harness.ChainB, "s1")
	victimState := func() string {
		var sb strings.Builder
		for _, v := range []string{victimA, victimB} {
			ic := world.Interchain(v)
			sb.WriteString(fmt.Sprintf("%v|", ic))
		}
		sb.WriteString(fmt.Sprint(world.Status(victimA+"-"+victimB+"-1"), world.Status(victimB+"-"+victimA+"-1")))
		sb.WriteString(fmt.Sprint("|group:", world.Status(harness.FullID(harness.ChainC, "s1")+"-"+harness.FullID(harness.ChainA, "s2")+"-1"), world.Status(harness.FullID(harness.ChainC, "s1")+"-"+harness.FullID(harness.ChainB, "s2")+"-1")))
		return sb.String()
	}
	nCalls := 90
	// after the random calls: every contract-to-contract entry point once, called by the admin of the very appchain
	// it names (for an internal entry point the chain's own admin is "anyone other than the designated caller
	// contract" like everybody else)
	var internals []harness.Method
	for _, cm := range classified {
		if model.AclClass(cm.CName, cm.Name) == "internal" {
			internals = append(internals, cm)
		}
	}
	roles["named-chain-admin"] = harness.ChainAdmin(harness.ChainA)
	ownPool := []string{harness.ChainA, harness.ChainA, "ETH", "0x00000000000000000000000000000000000000a2", "", harness.ChainA + ":s1", harness.FullID(harness.ChainA, "s1"), "reason", harness.ChainAdmin(harness.ChainA).Addr.String()}
	shape := map[string]bool{}
	for c := 0; c < nCalls+len(internals); c++ {
		var m harness.Method
		cls := ""
		if c >= nCalls {
			m, cls = internals[c-nCalls], "internal"
		} else if rng.Intn(5) != 0 {
			m = classified[rng.Intn(len(classified))]
			cls = model.AclClass(m.CName, m.Name)
		} else {
			m = unclassified[rng.Intn(len(unclassified))]
		}
		var roleName string
		switch cls {
		case "internal":
			roleName = append([]string{"gov-admin", "gov-admin"}, everyoneElse...)[rng.Intn(2+len(everyoneElse))]
		default:
			roleName = everyoneElse[rng.Intn(len(everyoneElse))]
		}
		k := roles[roleName]
		argPool := pool
		if roleName == "case-twin-chain-admin" && rng.Intn(4) != 0 {
			// this caller is interesting only when the victim is the chain its own id resembles
			argPool = []string{harness.ChainA, harness.ChainA, harness.ChainA + ":s1", harness.ChainA + ":s2", harness.FullID(harness.ChainA, "s1"), "reason", "0x00000000000000000000000000000000000000a2"}
		}
		if c >= nCalls {
			roleName, k, argPool = "named-chain-admin", roles["named-chain-admin"], ownPool
		}
		argv, ok := m.WellTyped(rng, argPool)
		if !ok {
			continue
		}
		if c >= nCalls {
			for _, x := range argv {
				if x.Type == pb.Arg_String {
					x.Value = []byte(harness.ChainA) // the first string argument names the caller's own chain
					break
				}
			}
			w.Count("aimed_calls:internal-entry-point-by-the-admin-of-the-chain-it-names", 1)
		}
		// aimed calls: arguments taken from the victim's registered record, where a generic pool never lands
		if aim := rng.Intn(15); aim < 6 && c < nCalls {
			aim4Done := false
			for _, cm := range classified {
				switch {
				case aim == 0 && cm.CName == "ServiceManager" && cm.Name == "UpdateService":
					// name and details as registered: the branch that rewrites intro and black list without a proposal
					m, cls = cm, model.AclClass(cm.CName, cm.Name)
					roleName = everyoneElse[rng.Intn(len(everyoneElse))]
					victim := []string{harness.ChainA, harness.ChainB}[rng.Intn(2)]
					argv = []*pb.Arg{pb.String(victim + ":s1"), pb.String("svc-" + victim + "-s1"), pb.String(fmt.Sprintf("intro-%d", rng.Intn(1000))),
						pb.String([]string{"", harness.FullID(harness.ChainC, "s1")}[rng.Intn(2)]), pb.String("details"), pb.String("reason")}
					w.Count("aimed_calls:update-service-with-registered-name", 1)
				case aim == 1 && cm.CName == "Governance" && cm.Name == "Vote":
					// an admin who was in the open proposal's electorate and has been frozen since
					m, cls = cm, model.AclClass(cm.CName, cm.Name)
					roleName = []string{"frozen-gov-admin", "frozen-gov-admin-with-pending-logout"}[rng.Intn(2)]
					argv = []*pb.Arg{pb.String(string(pidB)), pb.String([]string{"approve", "reject"}[rng.Intn(2)]), pb.String("reason")}
					w.Count("aimed_calls:vote-by-frozen-admin-of-the-electorate", 1)
				case aim == 2 && cm.CName == "Governance" && cm.Name == "WithdrawProposal":
					// the open proposal is chainA's admin's: for withdrawing it, a governance admin is "everyone else" too
					m, cls = cm, model.AclClass(cm.CName, cm.Name)
					roleName = append([]string{"gov-admin", "gov-admin"}, everyoneElse...)[rng.Intn(2+len(everyoneElse))]
					argv = []*pb.Arg{pb.String(string(pidB)), pb.String("reason")}
					w.Count("aimed_calls:withdraw-of-somebody-elses-proposal", 1)
				case aim == 3 && cm.CName == "TransactionManager" && cm.Name == "Report":
					// the exact id of a child of the fixture's open group, with a legal receipt type
					m, cls = cm, model.AclClass(cm.CName, cm.Name)
					roleName = append([]string{"gov-admin"}, everyoneElse...)[rng.Intn(1+len(everyoneElse))]
					child := harness.FullID(harness.ChainC, "s1") + "-" + []string{harness.FullID(harness.ChainA, "s2"), harness.FullID(harness.ChainB, "s2")}[rng.Intn(2)] + "-1"
					argv = []*pb.Arg{pb.String(child), pb.Int32(int32(1 + rng.Intn(3)))}
					w.Count("aimed_calls:report-on-a-child-of-an-open-group", 1)
				case aim == 5 && aclSubChainOK && cm.CName == "ServiceManager" && cm.Name == []string{"LogoutService", "ActivateService", "UpdateService"}[c%3]:
					// chainA's admin acts on the service of the appchain whose id is "chainA:sub"
					m, cls = cm, model.AclClass(cm.CName, cm.Name)
					roleName = "earlier-chain-admin"
					if cm.Name == "UpdateService" {
						argv = []*pb.Arg{pb.String(aclSubChain + ":s1"), pb.String("svc-" + aclSubChain + "-s1"), pb.String(fmt.Sprintf("intro-%d", rng.Intn(1000))), pb.String(""), pb.String("details"), pb.String("reason")}
					} else {
						argv = []*pb.Arg{pb.String(aclSubChain + ":s1"), pb.String("reason")}
					}
					w.Count("aimed_calls:admin-of-chainA-on-a-service-of-chainA:sub", 1)
				case aim == 4 && cm.CName == "ServiceManager" && (cm.Name == "UpdateService" || cm.Name == "LogoutService" || cm.Name == "RegisterService") && !aim4Done:
					// the admin of an appchain that was registered earlier acts on a chain registered after it
					aim4Done = true
					m, cls = cm, model.AclClass(cm.CName, cm.Name)
					roleName = "earlier-chain-admin"
					victim := []string{harness.ChainB, harness.ChainC, "chainW"}[rng.Intn(3)]
					switch cm.Name {
					case "UpdateService":
						argv = []*pb.Arg{pb.String(victim + ":s1"), pb.String("svc-" + victim + "-s1"), pb.String(fmt.Sprintf("intro-%d", rng.Intn(1000))), pb.String(""), pb.String("details"), pb.String("reason")}
					case "LogoutService":
						argv = []*pb.Arg{pb.String(victim + ":s1"), pb.String("reason")}
					default:
						argv = []*pb.Arg{pb.String(victim), pb.String(fmt.Sprintf("s9%d", rng.Intn(9))), pb.String(fmt.Sprintf("name-%d", rng.Intn(1e6))), pb.String("CallContract"), pb.String("intro"), pb.Uint64(1), pb.String(""), pb.String("details"), pb.String("reason")}
					}
					w.Count("aimed_calls:admin-of-an-earlier-chain-on-a-later-chain", 1)
				}
			}
			k = roles[roleName]
		}
		var as []string
		for _, x := range argv {
			v := string(x.Value)
			if len(v) > 40 {
				v = v[:40] + "…"
			}
			as = append(as, fmt.Sprintf("%q", v))
		}
		desc := fmt.Sprintf("%s.%s(%s) by %s", m.CName, m.Name, strings.Join(as, ","), roleName)
		before := world.R.DumpState()
		vBefore := victimState()
		tx := world.BVM(k, types.NewAddressByStr(m.Contract), m.Name, argv...)
		w.Step(desc)
		res, err := world.Exec(tx)
		if err != nil {
			viol("exec:error", desc+": "+err.Error())
			return
		}
		w.Count("calls", 1)
		w.Count("calls:"+cls, 1)
		w.SetAdd("methods_"+cls, m.CName+"."+m.Name)
		rc := res.Receipts[0]
		allowed := map[string]bool{k.Addr.String(): true}
		for ad := range admins {
			allowed[ad] = true
		}
		diff := stateDiffOnlyFees(before, world.R.DumpState(), allowed)
		if vAfter := victimState(); vAfter != vBefore {
			viol("victim-records-changed:"+m.CName+"."+m.Name, fmt.Sprintf("%s changed another party's interchain counters / transaction records: %s -> %s", desc, vBefore, vAfter))
		}
		if cls == "" {
			if rc.Status == pb.Receipt_SUCCESS && len(diff) > 0 {
				w.SetAdd("unclassified_methods_writing_state_for_outsider", m.CName+"."+m.Name)
			}
			continue
		}
		shape[cls+":"+roleName] = true
		if rc.Status == pb.Receipt_SUCCESS {
			viol(cls+"-entry:not-rejected:"+m.CName+"."+m.Name, fmt.Sprintf("%s succeeded (ret %.100q); state keys changed: %v", desc, string(rc.Ret), diff))
		} else if len(diff) > 0 {
			viol(cls+"-entry:state-changed:"+m.CName+"."+m.Name, fmt.Sprintf("%s failed (%.100q) but changed state keys %v", desc, string(rc.Ret), diff))
		}
	}
	var sh []string
	for k := range shape {
		sh = append(sh, k)
	}
	sort.Strings(sh)
	if id == a.From {
		var cn []string
		for _, m := range classified {
			cn = append(cn, m.CName+"."+m.Name)
		}
		w.Sample(map[string]interface{}{"case": id, "classified_entry_points": cn, "unclassified": len(unclassified)})
	}
	w.CaseDone(fmt.Sprintf("audit%v|%s|%d", !opts.NoAudit, strings.Join(sh, ","), id), true)
}
