package main

import (
	"context"
	"fmt"
	"math/rand"
	"time"

	"github.com/meshplus/bitxhub-model/pb"
	"github.com/meshplus/bitxhub/pkg/order/mempool"
	"github.com/meshplus/bitxhub/verif/vlog"
)

// txCacheCase (C19): the pool's front buffer. Every transaction handed to TxCache.RecvTxC must come out of
// TxSetC exactly once, in arrival order, and a set that was handed over must not change afterwards -
// whatever the consumer's pace (it may still hold or read earlier sets while later transactions arrive).
// No clock decides anything: the case ends when all transactions came out or the watchdog (inconclusive)
// fires; the verdict compares what was sent with what was received.
func txCacheCase(w *vlog.W, id int, rng *rand.Rand) {
	w.CaseStart(id, map[string]interface{}{"kind": "tx-cache front buffer"})
	setSize := uint64(1 + rng.Intn(6))
	tc := mempool.NewTxCache(time.Duration(1+rng.Intn(5))*time.Millisecond, setSize, quietLogger())
	ctx, cancel := context.WithCancel(context.Background())
	defer cancel()
	go tc.ListenEvent(ctx)
	n := 60 + rng.Intn(120)
	var sent []string
	txs := make([]pb.Transaction, n)
	for i := range txs {
		txs[i] = mkPoolTx(fmt.Sprintf("%d/%d/%d@%d", i%3, i/3, 5, 900000+i))
		sent = append(sent, txs[i].GetHash().String())
	}
	pace := rng.Intn(3) // 0: bursts, 1: steady, 2: slow consumer
	delays := make([]int, n)
	for i := range delays {
		delays[i] = rng.Intn(300)
	}
	go func() {
		for i, tx := range txs {
			tc.RecvTxC <- tx
			if pace != 0 || i%7 == 6 {
				time.Sleep(time.Duration(delays[i]) * time.Microsecond)
			}
		}
	}()
	type got struct {
		set  *pb.Transactions
		copy []string
	}
	var sets []got
	total := 0
	watchdog := time.After(20 * time.Second)
	for total < n {
		select {
		case s := <-tc.TxSetC:
			var hs []string
			for _, tx := range s.Transactions {
				if tx == nil {
					hs = append(hs, "<nil>")
				} else {
					hs = append(hs, tx.GetHash().String())
				}
			}
			sets = append(sets, got{s, hs})
			total += len(hs)
			if pace == 2 {
				time.Sleep(time.Duration(200+rng.Intn(600)) * time.Microsecond) // still holding the set
			}
		case <-watchdog:
			w.Inconclusive(fmt.Sprintf("tx cache delivered %d of %d transactions before the watchdog", total, n))
			w.CaseDone("txcache|watchdog", false)
			return
		}
	}
	w.Count("txcache_txs", int64(n))
	w.Count("txcache_sets", int64(len(sets)))
	// a set must still hold what it held when it was handed over
	var recv []string
	for i, g := range sets {
		for j, tx := range g.set.Transactions {
			now := "<nil>"
			if tx != nil {
				now = tx.GetHash().String()
			}
			if j < len(g.copy) && now != g.copy[j] {
				w.Violation("txcache:set-changed-after-handover", fmt.Sprintf("set %d entry %d was %s when it was handed over and is %s now (set size %d)", i, j, g.copy[j], now, setSize), nil)
			}
		}
		recv = append(recv, g.copy...)
	}
	if len(recv) != len(sent) {
		w.Violation("txcache:count", fmt.Sprintf("%d transactions handed in, %d came out", len(sent), len(recv)), nil)
	} else {
		for i := range sent {
			if sent[i] != recv[i] {
				w.Violation("txcache:lost-or-reordered", fmt.Sprintf("position %d: handed in %s, came out %s", i, sent[i], recv[i]), nil)
				break
			}
		}
	}
	w.CaseDone(fmt.Sprintf("txcache|size%d|pace%d", setSize, pace), true)
}
