// vcheck is the parent driver: it builds the worker from /repo's current tree, shards a fixed,
// seed-determined case list over child processes, collects their event logs and race logs,
// matches violations against known_findings.json, writes evidence/<ID>.json and prints the
// verdict lines. It never links /repo itself.
package main

import (
	"bufio"
	"crypto/sha256"
	"encoding/json"
	"flag"
	"fmt"
	"io/ioutil"
	"os"
	"os/exec"
	"path/filepath"
	"regexp"
	"runtime"
	"sort"
	"strconv"
	"strings"
	"sync"
	"sync/atomic"
	"time"

	"github.com/meshplus/bitxhub/verif/vlog"
)

const verifDir = "/verif"

type spec struct {
	Prop      string
	Workload  string
	Race      bool
	Level     string
	Quick     int // number of cases
	Thorough  int
	PerBatch  int           // cases per worker process
	Watchdog  time.Duration // per batch
	Rule      string
	Assume    []string
	RacePkgs  []string         // in-repo package path fragments whose races belong to this property
	MinStats  map[string]int64 // counters that must reach the given value (quick tier) or the run observed too little
	ExtraArgs []string
	Exhaust   bool
	MaxPar    int // upper bound on concurrently running worker processes (0 = number of cores)
}

type finding struct {
	Property  string `json:"property"`
	Signature string `json:"signature"`
	Status    string `json:"status"` // open | fixed
	What      string `json:"what"`
	Commit    string `json:"commit,omitempty"`
	Witness   string `json:"witness,omitempty"`
}

type violation struct {
	Sig     string      `json:"signature"`
	Detail  string      `json:"detail"`
	Case    int         `json:"case"`
	Witness interface{} `json:"witness,omitempty"`
	Count   int         `json:"count"`
}

func env(k, d string) string {
	if v := os.Getenv(k); v != "" {
		return v
	}
	return d
}

func main() {
	prop := flag.String("prop", "", "property id")
	tier := flag.String("tier", env("VERIF_TIER", "quick"), "quick|thorough")
	replay := flag.String("replay", "", "replay file")
	par := flag.Int("j", 0, "parallel workers")
	keep := flag.Bool("keep", false, "keep scratch dir")
	ncases := flag.Int("n", 0, "override number of cases")
	flag.Parse()
	seed, _ := strconv.ParseInt(env("VERIF_SEED", "1"), 10, 64)
	if *replay != "" {
		os.Exit(doReplay(*replay))
	}
	sp, ok := specs[*prop]
	if !ok {
		fmt.Fprintln(os.Stderr, "unknown property", *prop)
		os.Exit(2)
	}
	if *tier != "quick" && *tier != "thorough" {
		*tier = "quick"
	}
	os.Exit(run(sp, *tier, seed, *par, *keep, *ncases))
}

func repoDir() string { return env("VERIF_REPO", "/repo") }

// build builds the worker binary from the current /repo tree (a no-op when nothing changed).
func build(race bool) (string, error) {
	out := filepath.Join(verifDir, "bin", "vworker-plain")
	args := []string{"build", "-tags", "verif", "-ldflags=-checklinkname=0"}
	if race {
		out = filepath.Join(verifDir, "bin", "vworker")
		args = append(args, "-race")
	}
	modfile := ""
	if repoDir() != "/repo" {
		// scratch copies: alternative modfile with a different replace target
		b, err := ioutil.ReadFile(filepath.Join(verifDir, "go.mod"))
		if err != nil {
			return "", err
		}
		tag := fmt.Sprintf("%x", sha256.Sum256([]byte(repoDir())))[:10]
		modfile = filepath.Join(verifDir, "bin", "alt-"+tag+".mod")
		os.MkdirAll(filepath.Dir(modfile), 0755)
		nb := strings.Replace(string(b), "=> /repo", "=> "+repoDir(), 1)
		ioutil.WriteFile(modfile, []byte(nb), 0644)
		sum, _ := ioutil.ReadFile(filepath.Join(verifDir, "go.sum"))
		ioutil.WriteFile(strings.TrimSuffix(modfile, ".mod")+".sum", sum, 0644)
		args = append(args, "-modfile="+modfile)
		out += "-" + tag
	}
	args = append(args, "-o", out, "./cmd/vworker")
	cmd := exec.Command("go", args...)
	cmd.Dir = verifDir
	cmd.Env = append(os.Environ(), "GOFLAGS=-mod=mod", "GOPROXY=off", "GOSUMDB=off", "GOTOOLCHAIN=local")
	b, err := cmd.CombinedOutput()
	if err != nil {
		return "", fmt.Errorf("building worker failed: %v\n%s", err, string(b))
	}
	return out, nil
}

type batchResult struct {
	idx       int
	from, to  int
	recs      []vlog.Rec
	ended     bool
	exitErr   error
	timedOut  bool
	logTail   string
	raceFiles []string
}

func run(sp spec, tier string, seed int64, par int, keep bool, override int) int {
	t0 := time.Now()
	n := sp.Quick
	if tier == "thorough" {
		n = sp.Thorough
	}
	if override > 0 {
		n = override
	}
	bin, err := build(sp.Race)
	if err != nil {
		fmt.Println(err)
		fmt.Printf("INCONCLUSIVE property=%s worker does not build\n", sp.Prop)
		return 2
	}
	if old, _ := filepath.Glob(filepath.Join(verifDir, "replay", sp.Prop+"-*.json")); len(old) > 0 {
		for _, f := range old {
			os.Remove(f)
		}
	}
	scratch, err := ioutil.TempDir("", "verif."+sp.Prop+".")
	if err != nil {
		fmt.Println(err)
		return 2
	}
	if !keep {
		defer os.RemoveAll(scratch)
	} else {
		fmt.Println("scratch:", scratch)
	}
	per := sp.PerBatch
	if per <= 0 {
		per = 1
	}
	if par <= 0 {
		par = runtime.NumCPU()
		if par > 16 {
			par = 16
		}
		if sp.MaxPar > 0 && par > sp.MaxPar {
			par = sp.MaxPar
		}
	}
	type job struct{ idx, from, to int }
	var jobs []job
	for a := 0; a < n; a += per {
		b := a + per
		if b > n {
			b = n
		}
		jobs = append(jobs, job{len(jobs), a, b})
	}
	results := make([]*batchResult, len(jobs))
	var wg sync.WaitGroup
	sem := make(chan struct{}, par)
	// a node that wedges costs one block watchdog (120 s) per case: once a batch has reported that, the verdict is a
	// violation whatever the remaining batches show, and they are not started any more
	var wedged int32
	skipped := 0
	for _, j := range jobs {
		wg.Add(1)
		sem <- struct{}{}
		if atomic.LoadInt32(&wedged) > 0 {
			<-sem
			wg.Done()
			skipped += j.to - j.from
			continue
		}
		go func(j job) {
			defer wg.Done()
			defer func() { <-sem }()
			br := runBatch(bin, sp, tier, seed, scratch, j.idx, j.from, j.to, nil)
			for _, r := range br.recs {
				if r.K == "viol" && strings.HasPrefix(r.Sig, "wedged:") {
					atomic.StoreInt32(&wedged, 1)
				}
			}
			results[j.idx] = br
		}(j)
	}
	wg.Wait()

	// ---- aggregate
	agg := newAgg(sp, tier, seed)
	for _, br := range results {
		if br != nil {
			agg.add(br)
		}
	}
	if skipped > 0 {
		agg.stats["cases_not_started_after_a_wedged_node"] += int64(skipped)
	}
	return agg.finish(t0, scratch, n)
}

func runBatch(bin string, sp spec, tier string, seed int64, scratch string, idx, from, to int, extra []string) *batchResult {
	br := &batchResult{idx: idx, from: from, to: to}
	out := filepath.Join(scratch, fmt.Sprintf("out.%d.jsonl", idx))
	logf := filepath.Join(scratch, fmt.Sprintf("log.%d.txt", idx))
	work := filepath.Join(scratch, fmt.Sprintf("work.%d", idx))
	os.MkdirAll(work, 0755)
	racePrefix := filepath.Join(scratch, fmt.Sprintf("race.%d", idx))
	wd := sp.Watchdog
	if wd == 0 {
		wd = 10 * time.Minute
	}
	if tier == "thorough" {
		wd *= 3
	}
	args := []string{"-s", "QUIT", "-k", "20", fmt.Sprintf("%d", int(wd.Seconds())), bin, sp.Workload,
		"-seed", fmt.Sprint(seed), "-from", fmt.Sprint(from), "-to", fmt.Sprint(to), "-out", out, "-work", work, "-tier", tier}
	args = append(args, sp.ExtraArgs...)
	args = append(args, extra...)
	cmd := exec.Command("timeout", args...)
	lf, _ := os.Create(logf)
	cmd.Stdout = lf
	cmd.Stderr = lf
	cmd.Env = append(os.Environ(), "GORACE=halt_on_error=0 exitcode=0 log_path="+racePrefix, "VERIF_SELF="+bin, "GOTRACEBACK=all")
	err := cmd.Run()
	lf.Close()
	br.exitErr = err
	if ee, ok := err.(*exec.ExitError); ok {
		if ee.ExitCode() == 124 || ee.ExitCode() == 137 {
			br.timedOut = true
		}
	}
	// parse output
	if f, e := os.Open(out); e == nil {
		sc := bufio.NewScanner(f)
		sc.Buffer(make([]byte, 1<<20), 64<<20)
		for sc.Scan() {
			var r vlog.Rec
			if json.Unmarshal(sc.Bytes(), &r) == nil {
				br.recs = append(br.recs, r)
				if r.K == "end" {
					br.ended = true
				}
			}
		}
		f.Close()
	}
	if b, e := ioutil.ReadFile(logf); e == nil {
		s := string(b)
		if len(s) > 200000 {
			// keep head of the crash: find "panic:" or "fatal error:"
			i := strings.Index(s, "panic:")
			if j := strings.Index(s, "fatal error:"); j >= 0 && (i < 0 || j < i) {
				i = j
			}
			if i < 0 {
				i = len(s) - 20000
			}
			end := i + 20000
			if end > len(s) {
				end = len(s)
			}
			s = s[i:end]
		}
		br.logTail = s
	}
	rf, _ := filepath.Glob(racePrefix + ".*")
	br.raceFiles = rf
	os.RemoveAll(work)
	return br
}

// ---------------------------------------------------------------------------------------------

type agg struct {
	sp       spec
	tier     string
	seed     int64
	evals    int
	shapes   map[string]bool
	stats    map[string]int64
	sets     map[string]map[string]bool
	samples  []interface{}
	viols    map[string]*violation
	inconc   []string
	raceObs  map[string]int
	raceViol map[string]string
}

func newAgg(sp spec, tier string, seed int64) *agg {
	return &agg{sp: sp, tier: tier, seed: seed, shapes: map[string]bool{}, stats: map[string]int64{}, sets: map[string]map[string]bool{},
		viols: map[string]*violation{}, raceObs: map[string]int{}, raceViol: map[string]string{}}
}

func (a *agg) addViol(sig, detail string, c int, w interface{}) {
	v := a.viols[sig]
	if v == nil {
		v = &violation{Sig: sig, Detail: detail, Case: c, Witness: w}
		a.viols[sig] = v
	}
	v.Count++
}

var reRepoFrame = regexp.MustCompile(`github\.com/meshplus/bitxhub/((?:internal|pkg|api|cmd)/\S*)`)

func firstRepoFrame(log string) string {
	i := strings.Index(log, "panic:")
	if j := strings.Index(log, "fatal error:"); j >= 0 && (i < 0 || j < i) {
		i = j
	}
	if i < 0 {
		return ""
	}
	m := reRepoFrame.FindStringSubmatch(log[i:])
	if m == nil {
		return ""
	}
	f := m[1]
	if i := strings.LastIndex(f, "("); i > 0 && !strings.HasSuffix(f[:i], ".") {
		f = f[:i]
	}
	f = regexp.MustCompile(`\.func\d+(\.\d+)*$`).ReplaceAllString(f, "")
	return f
}

func (a *agg) add(br *batchResult) {
	open := -1
	var openDesc interface{}
	lastStep := ""
	for _, r := range br.recs {
		switch r.K {
		case "case":
			open = r.Case
			openDesc = r.Desc
			lastStep = ""
		case "step":
			lastStep = r.Detail
		case "viol":
			a.addViol(r.Sig, r.Detail, r.Case, r.Witness)
		case "inconclusive":
			a.inconc = append(a.inconc, fmt.Sprintf("case %d: %s", r.Case, r.Detail))
		case "done":
			a.evals++
			if r.NonTriv {
				a.shapes[r.Shape] = true
			}
			open = -1
		case "end":
			for k, v := range r.Stats {
				a.stats[k] += v
			}
			for k, vs := range r.Sets {
				m := a.sets[k]
				if m == nil {
					m = map[string]bool{}
					a.sets[k] = m
				}
				for _, v := range vs {
					m[v] = true
				}
			}
			for _, s := range r.Samples {
				if len(a.samples) < 4 {
					a.samples = append(a.samples, s)
				}
			}
		}
	}
	if !br.ended {
		if br.timedOut {
			a.inconc = append(a.inconc, fmt.Sprintf("batch %d (cases %d..%d) hit the batch watchdog at case %d step %q", br.idx, br.from, br.to, open, lastStep))
		} else {
			frame := firstRepoFrame(br.logTail)
			if frame == "" {
				frame = "unknown"
			}
			head := br.logTail
			if i := strings.Index(head, "panic:"); i >= 0 {
				head = head[i:]
			} else if i := strings.Index(head, "fatal error:"); i >= 0 {
				head = head[i:]
			}
			if len(head) > 3000 {
				head = head[:3000]
			}
			msg := ""
			if i := strings.Index(head, "\n"); i > 0 {
				msg = head[:i]
			}
			msg = regexp.MustCompile(`0x[0-9a-fA-F]+|[0-9]+`).ReplaceAllString(msg, "N")
			msg = strings.TrimPrefix(strings.TrimPrefix(msg, "panic: "), "fatal error: ")
			if len(msg) > 60 {
				msg = msg[:60]
			}
			a.addViol("crash:"+frame+"|"+msg, fmt.Sprintf("worker process died (%v) in case %d at step %q\n%s", br.exitErr, open, lastStep, head), open,
				map[string]interface{}{"case_desc": openDesc, "last_step": lastStep})
		}
	}
	for _, f := range br.raceFiles {
		a.addRaces(f)
	}
}

// ---- race reports -------------------------------------------------------------------------

var reFuncLine = regexp.MustCompile(`^\s+(\S+)\(.*\)$`)

func (a *agg) addRaces(file string) {
	b, err := ioutil.ReadFile(file)
	if err != nil {
		return
	}
	blocks := strings.Split(string(b), "WARNING: DATA RACE")
	for _, blk := range blocks[1:] {
		// two access stacks: sections begin with "Write at"/"Read at"/"Previous write at"/"Previous read at"
		lines := strings.Split(blk, "\n")
		var stacks [][]string
		var cur []string
		inAccess := false
		for _, ln := range lines {
			t := strings.TrimSpace(ln)
			if strings.HasPrefix(t, "Write at") || strings.HasPrefix(t, "Read at") || strings.HasPrefix(t, "Previous write at") || strings.HasPrefix(t, "Previous read at") ||
				strings.HasPrefix(t, "Atomic") || strings.HasPrefix(t, "Previous atomic") {
				if cur != nil {
					stacks = append(stacks, cur)
				}
				cur = []string{}
				inAccess = true
				continue
			}
			if strings.HasPrefix(t, "Goroutine ") || strings.HasPrefix(t, "====") {
				if cur != nil {
					stacks = append(stacks, cur)
					cur = nil
				}
				inAccess = false
				continue
			}
			if inAccess {
				if m := reFuncLine.FindStringSubmatch(ln); m != nil {
					cur = append(cur, m[1])
				}
			}
		}
		if cur != nil {
			stacks = append(stacks, cur)
		}
		if len(stacks) < 2 {
			continue
		}
		inner := func(st []string) string {
			for _, f := range st {
				if strings.Contains(f, "github.com/meshplus/bitxhub/") && !strings.Contains(f, "/verif/") {
					f = strings.TrimPrefix(f, "github.com/meshplus/bitxhub/")
					return regexp.MustCompile(`\.func\d+(\.\d+)*$`).ReplaceAllString(f, "")
				}
			}
			return ""
		}
		// the racing accesses themselves must be in /repo code: races whose accesses sit inside a
		// dependency are recorded as observations only
		top := func(st []string) string {
			if len(st) == 0 {
				return ""
			}
			f := st[0]
			if strings.Contains(f, "github.com/meshplus/bitxhub/") && !strings.Contains(f, "/verif/") {
				f = strings.TrimPrefix(f, "github.com/meshplus/bitxhub/")
				return regexp.MustCompile(`\.func\d+(\.\d+)*$`).ReplaceAllString(f, "")
			}
			return ""
		}
		t1, t2 := top(stacks[0]), top(stacks[1])
		f1, f2 := inner(stacks[0]), inner(stacks[1])
		if f1 > f2 {
			f1, f2 = f2, f1
		}
		sig := "race:" + f1 + "|" + f2
		inScope := func(f string) bool {
			if f == "" {
				return false
			}
			for _, p := range a.sp.RacePkgs {
				if strings.HasPrefix(f, p) {
					return true
				}
			}
			return false
		}
		if inScope(t1) && inScope(t2) {
			if _, ok := a.raceViol[sig]; !ok {
				d := blk
				if len(d) > 3500 {
					d = d[:3500]
				}
				a.raceViol[sig] = d
			}
		}
		a.raceObs[sig]++
	}
}

// ---- finish -------------------------------------------------------------------------------

func loadFindings() []finding {
	var fs []finding
	b, err := ioutil.ReadFile(filepath.Join(verifDir, "known_findings.json"))
	if err != nil {
		return nil
	}
	json.Unmarshal(b, &fs)
	return fs
}

func (a *agg) finish(t0 time.Time, scratch string, planned int) int {
	for sig, d := range a.raceViol {
		a.addViol(sig, "data race between two functions that touch the state this property is about\n"+d, -1, nil)
	}
	findings := loadFindings()
	known := map[string]finding{}
	for _, f := range findings {
		if f.Property == a.sp.Prop && f.Status == "open" {
			known[f.Signature] = f
		}
	}
	var sigs []string
	for s := range a.viols {
		sigs = append(sigs, s)
	}
	sort.Strings(sigs)
	var unlisted, listed []*violation
	for _, s := range sigs {
		if _, ok := known[s]; ok {
			listed = append(listed, a.viols[s])
		} else {
			unlisted = append(unlisted, a.viols[s])
		}
	}
	// minimum observation counts
	var tooFew []string
	for k, min := range a.sp.MinStats {
		got := a.stats[k]
		if strings.HasPrefix(k, "set:") {
			got = int64(len(a.sets[strings.TrimPrefix(k, "set:")]))
		}
		if got < min {
			tooFew = append(tooFew, fmt.Sprintf("%s=%d<%d", k, got, min))
		}
	}
	sort.Strings(tooFew)
	if a.evals < planned {
		// cases lost to a crash are already violations; cases lost to a watchdog are inconclusive
		if len(a.inconc) == 0 && len(a.viols) == 0 {
			a.inconc = append(a.inconc, fmt.Sprintf("only %d of %d planned cases completed", a.evals, planned))
		}
	}

	// ---- evidence
	setsOut := map[string]interface{}{}
	for k, m := range a.sets {
		var vs []string
		for v := range m {
			vs = append(vs, v)
		}
		sort.Strings(vs)
		if len(vs) > 60 {
			setsOut[k] = map[string]interface{}{"count": len(vs), "first": vs[:60]}
		} else {
			setsOut[k] = vs
		}
	}
	raceObs := map[string]int{}
	for k, v := range a.raceObs {
		raceObs[k] = v
	}
	samples := a.samples
	if len(samples) == 0 {
		samples = []interface{}{"(no sample emitted)"}
	}
	var vlist []map[string]interface{}
	for _, v := range append(append([]*violation{}, unlisted...), listed...) {
		_, isKnown := known[v.Sig]
		vlist = append(vlist, map[string]interface{}{"signature": v.Sig, "count": v.Count, "known_finding": isKnown, "case": v.Case})
	}
	cov := map[string]interface{}{
		"evaluations":          a.evals,
		"distinct_nontrivial":  len(a.shapes),
		"rule":                 a.sp.Rule,
		"samples":              samples,
		"counters":             a.stats,
		"observed_sets":        setsOut,
		"race_observations":    raceObs,
		"violations_detail":    vlist,
		"inconclusive":         a.inconc,
		"too_few_observations": tooFew,
		"planned_cases":        planned,
	}
	if a.sp.Exhaust {
		cov["exhaustive"] = len(a.inconc) == 0 && a.evals == planned
	}
	ev := map[string]interface{}{
		"property_id": a.sp.Prop,
		"tier":        a.tier,
		"seed":        a.seed,
		"level":       a.sp.Level,
		"coverage":    cov,
		"assumptions": a.sp.Assume,
		"wall_s":      time.Since(t0).Seconds(),
		"violations":  len(unlisted),
	}
	// runs against seeded mutations (scripts/seed_check.sh) keep their evidence away from the committed files
	evDir := env("VERIF_EVIDENCE_DIR", filepath.Join(verifDir, "evidence"))
	os.MkdirAll(evDir, 0755)
	eb, _ := json.MarshalIndent(ev, "", " ")
	ioutil.WriteFile(filepath.Join(evDir, a.sp.Prop+".json"), eb, 0644)

	// ---- verdict lines
	for _, v := range listed {
		f := known[v.Sig]
		if len(f.What) > 260 {
			f.What = f.What[:260] + "…"
		}
		fmt.Printf("KNOWN-FINDING: property=%s %s: %s (seen %d times this run)\n", a.sp.Prop, v.Sig, f.What, v.Count)
	}
	fmt.Printf("%s %s seed=%d: %d cases, %d distinct non-trivial shapes, %d violation signature(s) (%d listed as known), %.1fs\n",
		a.sp.Prop, a.tier, a.seed, a.evals, len(a.shapes), len(a.viols), len(listed), time.Since(t0).Seconds())
	if len(unlisted) > 0 {
		os.MkdirAll(filepath.Join(verifDir, "replay"), 0755)
		for i, v := range unlisted {
			if i >= 10 {
				break
			}
			h := fmt.Sprintf("%x", sha256.Sum256([]byte(v.Sig)))[:10]
			p := filepath.Join(verifDir, "replay", fmt.Sprintf("%s-%s.json", a.sp.Prop, h))
			rb, _ := json.MarshalIndent(map[string]interface{}{
				"property": a.sp.Prop, "signature": v.Sig, "detail": v.Detail, "case": v.Case, "seed": a.seed, "tier": a.tier,
				"workload": a.sp.Workload, "extra_args": a.sp.ExtraArgs, "race": a.sp.Race, "witness": v.Witness,
			}, "", " ")
			ioutil.WriteFile(p, rb, 0644)
			first := v.Detail
			if i := strings.Index(first, "\n"); i > 0 {
				first = first[:i]
			}
			if len(first) > 300 {
				first = first[:300]
			}
			fmt.Printf("  %s: %s\n", v.Sig, first)
			fmt.Printf("VIOLATION property=%s replay=%s\n", a.sp.Prop, p)
		}
		return 1
	}
	if len(a.inconc) > 0 || len(tooFew) > 0 {
		for i, s := range a.inconc {
			if i < 5 {
				fmt.Println("  inconclusive:", s)
			}
		}
		fmt.Printf("INCONCLUSIVE property=%s %d inconclusive case(s); too few observations: %v\n", a.sp.Prop, len(a.inconc), tooFew)
		return 2
	}
	return 0
}

func doReplay(path string) int {
	b, err := ioutil.ReadFile(path)
	if err != nil {
		fmt.Println(err)
		return 2
	}
	var rp struct {
		Property string `json:"property"`
		Case     int    `json:"case"`
		Seed     int64  `json:"seed"`
		Tier     string `json:"tier"`
	}
	if err := json.Unmarshal(b, &rp); err != nil {
		fmt.Println(err)
		return 2
	}
	sp, ok := specs[rp.Property]
	if !ok {
		fmt.Println("unknown property in replay file")
		return 2
	}
	bin, err := build(sp.Race)
	if err != nil {
		fmt.Println(err)
		return 2
	}
	scratch, _ := ioutil.TempDir("", "verif.replay.")
	defer os.RemoveAll(scratch)
	from, to := rp.Case, rp.Case+1
	if rp.Case < 0 {
		from, to = 0, 1
	}
	br := runBatch(bin, sp, rp.Tier, rp.Seed, scratch, 0, from, to, nil)
	a := newAgg(sp, rp.Tier, rp.Seed)
	a.add(br)
	for _, r := range br.recs {
		if r.K == "viol" {
			fmt.Printf("violation %s: %s\n", r.Sig, r.Detail)
		}
	}
	if len(a.viols) > 0 {
		for s := range a.viols {
			fmt.Printf("VIOLATION property=%s replay=%s signature=%s\n", sp.Prop, path, s)
		}
		return 1
	}
	fmt.Println("replay: no violation reproduced")
	return 0
}
