package main

import "time"

var poolPkgs = []string{"pkg/order/mempool"}

var specs = map[string]spec{
	"C18": {Prop: "C18", Workload: "pool18", Race: true, Level: "exploration", Quick: 2000, Thorough: 100000, PerBatch: 125, Watchdog: 10 * time.Minute,
		Rule: "each case = PRNG-generated history of ~80 pool API calls (arrivals out of order / duplicate / conflicting / stale, GenerateBlock, commits in order / out of order / partial / unknown / of txs batched elsewhere, eviction, rebroadcast scan, SetBatchSeqNo, restart) over 2-5 accounts, batch size 1-8, followed by a drain; every returned batch is checked against the sequential nonce model; a case is non-trivial if it exercised at least one hostile commit/evict/restart kind, and distinct by (batch size, #accounts, set of hostile kinds)",
		Assume: []string{"the pool is driven from one goroutine, as the order event loop does", "transactions are unsigned test objects; the pool never verifies signatures"},
		RacePkgs: poolPkgs, MinStats: map[string]int64{"batches": 100, "commits": 100}},
	"C19": {Prop: "C19", Workload: "pool19", Race: true, Level: "exploration", Quick: 2000, Thorough: 100000, PerBatch: 125, Watchdog: 10 * time.Minute,
		Rule: "same histories as C18; after every API call: every admitted tx is committed / retrievable by hash / superseded / evicted by the age rule while non-ready and non-batched; ready-unbatched => HasPendingRequest; GetPendingNonceByAccount == next nonce that would become ready; at the end ceil(ready/batch)+1 GenerateBlock+commit rounds must hand out every ready tx; non-trivial and distinct as for C18",
		Assume: []string{"eviction is exercised with tolerances that make the age comparison independent of elapsed time (-1h: every tx is older; 1000h: none is)"},
		RacePkgs: poolPkgs, MinStats: map[string]int64{"obs_pending_nonce_checks": 1000, "drained_ready_txs": 50}},
}
