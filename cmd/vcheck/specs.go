package main

import "time"

var poolPkgs = []string{"pkg/order/mempool"}

var specs = map[string]spec{
	"C18": {Prop: "C18", Workload: "pool18", Race: true, Level: "exploration", Quick: 2000, Thorough: 100000, PerBatch: 125, Watchdog: 10 * time.Minute,
		Rule: "each case = PRNG-generated history of ~80 pool API calls (arrivals out of order / duplicate / conflicting / stale, GenerateBlock, commits in order / out of order / partial / unknown / of txs batched elsewhere, eviction, rebroadcast scan, SetBatchSeqNo, restart) over 2-5 accounts, batch size 1-8, followed by a drain; every returned batch is checked against the sequential nonce model; a case is non-trivial if it exercised at least one hostile commit/evict/restart kind, and distinct by (batch size, #accounts, set of hostile kinds)",
		Assume: []string{"the pool is driven from one goroutine, as the order event loop does", "transactions are unsigned test objects; the pool never verifies signatures"},
		RacePkgs: poolPkgs, MinStats: map[string]int64{"batches": 100, "commits": 100}},
	"C19": {Prop: "C19", Workload: "pool19", Race: true, Level: "exploration", Quick: 2000, Thorough: 100000, PerBatch: 125, Watchdog: 10 * time.Minute,
		Rule: "same histories as C18; after every API call: every admitted tx is committed / retrievable by hash / superseded / evicted by the age rule while non-ready and non-batched; ready-unbatched => HasPendingRequest; GetPendingNonceByAccount == next nonce that would become ready; at the end ceil(ready/batch)+1 GenerateBlock+commit rounds must hand out every ready tx; non-trivial and distinct as for C18",
		Assume: []string{"eviction is exercised with tolerances that make the age comparison independent of elapsed time (-1h: every tx is older; 1000h: none is)"},
		RacePkgs: poolPkgs, MinStats: map[string]int64{"obs_pending_nonce_checks": 1000, "drained_ready_txs": 50}},
}

var ledgerPkgs = []string{"internal/ledger"}

func init() {
	specs["C13"] = spec{Prop: "C13", Workload: "kv13", Race: true, Level: "exploration", Quick: 400, Thorough: 20000, PerBatch: 25, Watchdog: 10 * time.Minute,
		Rule: "each case = PRNG-generated history of ~60 state-ledger calls (SetState/AddState incl. deletes and empty values, SetBalance/Nonce/Code, nested Snapshot/RevertToSnapshot, Finalise, FlushDirtyData+Commit, close+reopen) over 3 accounts x 7 keys that are prefixes of each other, with account-cache capacities 1-3 so evictions happen constantly (or default sizes); after every call a random subset, and before every flush / after every reopen the whole universe, of getters and prefix queries is compared with a map-based model; non-trivial = the history reverted a snapshot, reopened, or overwrote through AddState; distinct by (cache sizes, AddState used, set of such kinds)",
		Assume: []string{"values written through the non-journaled AddState are 'unknown' to the model after a revert to an older snapshot (the statement promises restoration only for journaled values)", "'present and empty' vs 'absent' is not judged (leveldb cannot represent the difference)", "model/kv.go is the specification"},
		MinStats: map[string]int64{"obs_state_reads": 5000, "obs_prefix_queries": 1000, "blocks": 300}}
	specs["C12"] = spec{Prop: "C12", Workload: "kv12", Race: true, Level: "exploration", Quick: 150, Thorough: 5000, PerBatch: 10, Watchdog: 10 * time.Minute,
		Rule: "state-ledger part: each case = ~140 generated calls forming 15-30 blocks (creations, overwrites, deletes, delete-then-recreate, code changes, AddState, accounts touched but unchanged) with RollbackState to targets inside the retained window (every distance), below it, above the head, repeated, optionally after a reopen; after a rollback every getter over the whole universe must equal the model state recorded when that height was committed, Version()==target, a refused rollback must leave the store byte-identical, and re-executing the recorded ops of block target+1 must reproduce its recorded root; distinct by (cache sizes, AddState used, rollback distances, refused, reexec)",
		Assume: []string{"executor-level rollback (rollbackBlocks) is covered by the replica workload of C12b/C09", "model/kv.go is the specification"},
		MinStats: map[string]int64{"rollbacks": 100, "reexecuted_blocks": 20}}
}

func init() {
	specs["C10"] = spec{Prop: "C10", Workload: "root10", Race: true, Level: "exploration", Quick: 60, Thorough: 1500, PerBatch: 4, Watchdog: 10 * time.Minute,
		Rule: "each case = a committed base state (2-3 blocks, 3 accounts + 1 brand-new one) and a generated write set W of 3-8 entries that differ from it (storage values incl. deletes, balance, nonce, code); W is realised on 6 forks by different histories (permuted order, split into txs, redundant intermediate writes, interleaved reads, reverted snapshots with unrelated storage / account-field writes, written-then-restored storage / account fields, AddState of an unchanged value) x (warm cache | reopened | cache capacity 1-2) and every fork's FlushDirtyData root must equal the plain in-order one; then every single-field perturbation of W (one value/balance/nonce/code changed, one entry dropped, one delete dropped, one key added, one key added on a new account) must change the root; distinct by (|W|, set of history styles used)",
		Assume: []string{"sha256 collisions and the ambiguity of un-length-prefixed concatenation (needs two coordinated field changes) are outside 'single-field'", "empty values are left to C13", "transaction/receipt roots are checked by the independent recomputation in the C09 audit, which the block-level part of this check reuses"},
		MinStats: map[string]int64{"forks": 100, "perturbations": 200}}
}

var execPkgs = []string{"internal/executor", "internal/ledger", "pkg/vm", "pkg/proof"}

func init() {
	ixRule := "each case = a copy of the fixture (3 appchains x 2 ordered services, built by real governance transactions from /repo's tree) and 25-40 generated blocks of 0-6 (sometimes 8-27) IBTP transactions over 3-6 ordered pairs incl. both directions of one pair and destinations that do not exist (begin-failed): requests with valid / duplicate / future / zero / 2^63 indices and timeouts {0,1,2,3,5,7,2^31,2^62,2^63-1,-1}, receipts success/failure/rollback with valid / duplicate / future / never-requested indices, before, in and after the expiry block and after final states, unrelated transfers, audit on/off, node restarts at random heights; the sequential model model/interchain.go (written from the statements) decides every IBTP in transaction order; "
	specs["C02"] = spec{Prop: "C02", Workload: "ixc02", Race: true, Level: "exploration", Quick: 120, Thorough: 1500, PerBatch: 3, Watchdog: 15 * time.Minute,
		Rule: ixRule + "oracles: receipt status of every IBTP tx == model verdict; after every block the four counters of every pair == accepted requests / finalised receipts; delivery metadata lists every accepted request exactly once for its destination chain and announces no rejected IBTP; GetIBTPByID resolves to the accepting tx; blocks holding only rejected IBTPs leave every key of the interchain and transaction-manager contracts unchanged. distinct = set of per-transaction status histories in the case",
		Assume: []string{"all rules are the always-true rule here (proof handling is C03's job)", "services are registered 'ordered' (unordered services skip the index check by design)"},
		MinStats: map[string]int64{"ibtp_accepted": 300, "ibtp_rejected": 300, "obs_counter_checks": 1000, "obs_rejected_only_blocks": 10}}
	specs["C04"] = spec{Prop: "C04", Workload: "ixc04", Race: true, Level: "exploration", Quick: 120, Thorough: 1500, PerBatch: 3, Watchdog: 15 * time.Minute,
		Rule: ixRule + "oracles: GetStatus(id) after every block for every id ever accepted == the model's status; every observed change is a path of protocol edges no longer than the number of accepted events for that id in the block; final statuses never change; receipts needing a non-edge are rejected. distinct = set of per-transaction status histories in the case",
		Assume: []string{"inter-BitXHub notices (dst_failure / dst_rollback) are exercised by the C03 workload, not here"},
		MinStats: map[string]int64{"obs_status_queries": 3000, "set:status_edges": 6}}
	specs["C06"] = spec{Prop: "C06", Workload: "ixc06", Race: true, Level: "exploration", Quick: 120, Thorough: 1500, PerBatch: 3, Watchdog: 15 * time.Minute,
		Rule: ixRule + "oracles: TimeoutCounter of every block, for every chain key, == the requests accepted at H with 0<T<2^64-H whose due height H+T is this block and that have no accepted receipt at a height <= due; status BEGIN_ROLLBACK exactly from the due block; afterwards only rollback/failure receipts accepted. distinct = set of per-transaction status histories in the case",
		Assume: []string{"horizon: 25-40 blocks per case, so timeouts > 40 are only checked for 'never fires'", "one-to-many groups are checked by C05"},
		MinStats: map[string]int64{"expired_requests": 20, "obs_timeout_blocks": 1000}}
}

func init() {
	specs["C08"] = spec{Prop: "C08", Workload: "total08", Race: true, Level: "exploration", Quick: 240, Thorough: 3000, PerBatch: 4, Watchdog: 20 * time.Minute,
		Rule: "each case = a copy of the extended fixture (standard world + appchains bound to harness-authored WASM rules: first-byte / trap / fuel-burn) and 10 blocks of 1-20 hostile transactions at random positions among valid neighbours: (a) every exported method reachable through the BVM dispatcher (enumerated by reflection over the registered contract objects, ~570 entries incl. promoted stub methods) with well-typed, type-confused and wrong-arity argument vectors naming existing objects; (b) malformed IBTPs (ids with 0-5 separators, index/timeout extremes, unknown types, inconsistent groups, absent / mismatching / rule-rejected proofs, garbage envelope); (c) byte-level mutations of marshalled transaction data; (d) unknown tx/vm types, callee without code, garbage wasm, non-numeric amounts; (e) missing / truncated / mutated signatures; proof_type serial|parallel, audit on|off, random LocalList. Oracle: worker process alive, ExecutedEvent within the watchdog, one receipt per tx in block order, height+1. distinct by (config, set of hostile kinds in the case)",
		Assume: []string{"a dead worker is attributed to the block logged right before it died", "EVM path beyond the dispatcher is not driven", "watchdog 120 s per block; firing with the executor parked = wedged, otherwise inconclusive"},
		MinStats: map[string]int64{"txs": 3000, "set:methods_called": 200, "kind:ibtp": 300, "kind:badsig": 50}}
}
